package checks

import (
	"fmt"
	"math/rand/v2"
	"sort"
	"strings"

	"github.com/bufbuild/buf/private/bufpkg/bufimage"
	"github.com/bufbuild/buf/private/bufpkg/bufparse"
	"github.com/bufbuild/verifharness/gen"
	"github.com/bufbuild/verifharness/ref"
	"github.com/google/uuid"
	"google.golang.org/protobuf/proto"
	"google.golang.org/protobuf/types/descriptorpb"
)

// C18 workload: generated multi-module schemas decorated with everything managed mode could
// trip over — pre-set governed options (some already equal to what managed mode would write),
// non-governed and custom options next to them, jstype on 64-bit fields alone or together with
// other field options, map / extension / group / oneof fields of 64-bit types, WKT imports, files
// without a package, packages with PHP keywords, version-like and non-version last components,
// named and unnamed modules.

var c18ValuePool = map[string][]string{
	"java_package":                  {"com.acme.custom", "org.example.pkg", "com.acme.pets"},
	"java_package_prefix":           {"net.foo", "org", "com", "dev.acme.gen"},
	"java_package_suffix":           {"proto", "gen.v1"},
	"java_outer_classname":          {"CustomOuter", "PetsProto", "SpecialProto"},
	"go_package":                    {"example.com/custom/go;customv1", "example.com/x"},
	"go_package_prefix":             {"example.com/gen/go", "github.com/acme/gen", "gen"},
	"objc_class_prefix":             {"ABC", "AXX", "GPX"},
	"csharp_namespace":              {"Acme.Custom", "Acme.Pets"},
	"csharp_namespace_prefix":       {"Org.Gen", "X"},
	"php_namespace":                 {`Acme\Custom`, `Acme\Pets`},
	"php_metadata_namespace":        {`Acme\Custom\Meta`, `Acme\Pets\GPBMetadata`},
	"php_metadata_namespace_suffix": {"Meta", "GPBMetadata"},
	"ruby_package":                  {"Acme::Custom", "Acme::Pets"},
	"ruby_package_suffix":           {"Gen", "Proto"},
	"optimize_for":                  {"SPEED", "CODE_SIZE", "LITE_RUNTIME"},
}

var c18SpecialPkgs = []string{
	"", "", "acme.pets", "a", "ab.v2", "google.pay.billing", "acme.empty.function.v1beta1", "acme.big_store.v1",
	"acme.v1.pets", "x.list.v1test", "acme.class.v2p1alpha3", "acme.version1", "acme.pets.v1alpha", "acme.pets.v10",
}

type c18Field struct {
	Full string
	Path []int32 // descriptor source path of the field
	Is64 bool    // a type that permits jstype
	Msg  *descriptorpb.FieldDescriptorProto
}

type c18Workload struct {
	schema   *gen.Schema
	sources  map[string]string
	order    []string // all image file paths, sorted
	facts    map[string]c18FileFacts
	pristine map[string]*descriptorpb.FileDescriptorProto
	isImport map[string]bool
	fullName map[string]bufparse.FullName
	pools    c18Pools
	traits   []string
}

type c18Pools struct {
	files, wktFiles, dirs, modules []string
	fields64, fieldsOther          []string
}

var c18Governed = func() map[string]bool {
	m := map[string]bool{}
	for _, o := range c18FileOptions {
		m[o.Name] = true
	}
	return m
}()

func c18Literal(opt, kind, v string) string {
	if kind == "string" {
		return fmt.Sprintf("%q", v)
	}
	return v
}

func c18Is64(t string) bool {
	switch t {
	case "int64", "uint64", "sint64", "fixed64", "sfixed64":
		return true
	}
	return false
}

// c18Decorate rewrites the generated schema in place.
func c18Decorate(r *rand.Rand, s *gen.Schema) {
	// some modules lose their name
	for i, m := range s.Modules {
		if r.IntN(4) == 0 && (len(s.Modules) > 1 || i > 0 || r.IntN(2) == 0) {
			m.Name = ""
		}
	}
	// a message-typed custom field option gives deeper option paths under a field's [..,8]
	var optsPkg string
	if len(s.Modules) > 0 && len(s.Modules[0].Files) > 0 && strings.HasSuffix(s.Modules[0].Files[0].Path, "/opts.proto") {
		of := s.Modules[0].Files[0]
		optsPkg = of.Package
		of.Messages = append(of.Messages, &gen.Message{Name: "FieldMeta", Comment: "Field meta.", Fields: []*gen.Field{
			{Name: "level", Number: 1, Label: "optional", Kind: "scalar", Type: "int32", Comment: "Level."},
			{Name: "note", Number: 2, Label: "optional", Kind: "scalar", Type: "string", Comment: "Note."},
			{Name: "big", Number: 3, Label: "optional", Kind: "scalar", Type: "uint64", Comment: "Big."},
		}})
		of.Extends = append(of.Extends, &gen.Extend{Extendee: "google.protobuf.FieldOptions", Fields: []*gen.Field{
			{Name: "field_meta", Number: 50003, Label: "optional", Kind: "message", Type: optsPkg + ".FieldMeta", Comment: "Field meta."}}})
	}
	// special standalone files
	standalone := map[*gen.File]bool{}
	nspecial := 1 + r.IntN(4)
	for i := 0; i < nspecial; i++ {
		pkg := c18SpecialPkgs[r.IntN(len(c18SpecialPkgs))]
		mod := s.Modules[r.IntN(len(s.Modules))]
		f := &gen.File{Syntax: []string{"proto2", "proto3", "editions"}[r.IntN(3)], Package: pkg}
		base := []string{"special", "big_special", "sp2_x", "x-y"}[r.IntN(4)]
		if pkg == "" {
			f.Path = []string{"", "deep/dir/", "nopkg/"}[r.IntN(3)] + fmt.Sprintf("%s_%d.proto", base, i)
		} else {
			f.Path = strings.ReplaceAll(pkg, ".", "/") + fmt.Sprintf("/%s_%d.proto", base, i)
		}
		label := ""
		if f.Syntax == "proto2" {
			label = "optional"
		}
		msg := &gen.Message{Name: fmt.Sprintf("Spec%d", i), Comment: "Special."}
		for j, t := range []string{"int64", "uint64", "string", "sfixed64", "int32"} {
			msg.Fields = append(msg.Fields, &gen.Field{Name: fmt.Sprintf("f%d", j), Number: j + 1, Label: label, Kind: "scalar", Type: t, Comment: "F."})
		}
		msg.Fields = append(msg.Fields,
			&gen.Field{Name: "m64", Number: 10, Kind: "map", MapKey: "int64", MapVal: "sfixed64", MapValK: "scalar", Comment: "Map."},
			&gen.Field{Name: "r64", Number: 11, Label: "repeated", Kind: "scalar", Type: "fixed64", Comment: "Rep."})
		f.Messages = append(f.Messages, msg)
		mod.Files = append(mod.Files, f)
		standalone[f] = true
	}
	for _, f := range s.AllFiles() {
		// governed file options: start from a clean slate
		var keep []gen.Opt
		for _, o := range f.Options {
			if !c18Governed[o.Name] {
				keep = append(keep, o)
			}
		}
		f.Options = keep
		if r.IntN(5) < 3 {
			for _, o := range c18FileOptions {
				if r.IntN(3) != 0 {
					continue
				}
				if o.Name == "java_string_check_utf8" && f.Syntax == "editions" {
					continue // the compiler rejects this option in editions files
				}
				var v string
				switch o.Kind {
				case "bool":
					v = []string{"true", "false"}[r.IntN(2)]
				case "optimize":
					// only a file nobody imports may be LITE_RUNTIME
					v = c18ValuePool["optimize_for"][r.IntN(2)]
					if standalone[f] && r.IntN(2) == 0 {
						v = "LITE_RUNTIME"
					}
				default:
					fx := c18FileFacts{Path: f.Path, Package: f.Package}
					switch r.IntN(3) {
					case 0: // exactly what managed mode writes by default
						pre, suf := "", ""
						if o.Name == "java_package" {
							pre = "com"
						}
						if o.Name == "php_metadata_namespace" {
							suf = "GPBMetadata"
						}
						if o.Name == "go_package" {
							pre = c18ValuePool["go_package_prefix"][r.IntN(3)]
						}
						v = c18Formula(fx, o.Name, pre, suf)
					case 1:
						v = c18ValuePool[o.Name][r.IntN(len(c18ValuePool[o.Name]))]
					}
					if v == "" {
						v = "Preset" + c18Pascal(o.Name)
					}
				}
				f.Options = append(f.Options, gen.Opt{Name: o.Name, Value: c18Literal(o.Name, o.Kind, v)})
			}
		}
		// non-governed neighbours
		for _, o := range []gen.Opt{{Name: "deprecated", Value: "true"}, {Name: "java_generic_services", Value: "true"}, {Name: "swift_prefix", Value: `"SW"`},
			{Name: "php_class_prefix", Value: `"Pc"`}, {Name: "cc_generic_services", Value: "false"}} {
			if r.IntN(6) == 0 {
				f.Options = append(f.Options, o)
			}
		}
		// field options
		var visit func(m *gen.Message)
		decorate := func(fl *gen.Field) {
			if fl.Kind == "scalar" && c18Is64(fl.Type) {
				has := false
				for _, o := range fl.Options {
					has = has || o.Name == "jstype"
				}
				if !has && r.IntN(3) == 0 {
					fl.Options = append(fl.Options, gen.Opt{Name: "jstype", Value: []string{"JS_STRING", "JS_NUMBER", "JS_NORMAL"}[r.IntN(3)]})
				}
			}
			if fl.Kind == "group" || fl.Kind == "map" && r.IntN(2) == 0 {
				return
			}
			if r.IntN(8) == 0 {
				has := false
				for _, o := range fl.Options {
					has = has || o.Name == "deprecated"
				}
				if !has {
					fl.Options = append(fl.Options, gen.Opt{Name: "deprecated", Value: "true"})
				}
			}
			if optsPkg != "" && r.IntN(8) == 0 {
				fl.Options = append(fl.Options, gen.Opt{Name: "(" + optsPkg + ".field_meta).level", Value: fmt.Sprint(r.IntN(9))})
				if r.IntN(2) == 0 {
					fl.Options = append(fl.Options, gen.Opt{Name: "(" + optsPkg + ".field_meta).big", Value: "18446744073709551615"})
				}
			}
			// option order inside the brackets varies
			if len(fl.Options) > 1 && r.IntN(2) == 0 {
				r.Shuffle(len(fl.Options), func(i, j int) { fl.Options[i], fl.Options[j] = fl.Options[j], fl.Options[i] })
			}
		}
		visit = func(m *gen.Message) {
			for _, fl := range m.Fields {
				decorate(fl)
				if fl.Group != nil {
					visit(fl.Group)
				}
			}
			for _, n := range m.Nested {
				visit(n)
			}
			for _, x := range m.Extends {
				for _, fl := range x.Fields {
					decorate(fl)
				}
			}
		}
		if strings.HasSuffix(f.Path, "/opts.proto") {
			continue
		}
		for _, m := range f.Messages {
			visit(m)
		}
		for _, x := range f.Extends {
			for _, fl := range x.Fields {
				decorate(fl)
			}
		}
	}
}

// c18CollectFields lists every FieldDescriptorProto of a file (message fields, nested, map
// entries, extensions) with its full name and descriptor path.
func c18CollectFields(fd *descriptorpb.FileDescriptorProto) []c18Field {
	var out []c18Field
	add := func(scope string, path []int32, f *descriptorpb.FieldDescriptorProto) {
		full := f.GetName()
		if scope != "" {
			full = scope + "." + full
		}
		is64 := false
		switch f.GetType() {
		case descriptorpb.FieldDescriptorProto_TYPE_INT64, descriptorpb.FieldDescriptorProto_TYPE_UINT64, descriptorpb.FieldDescriptorProto_TYPE_SINT64,
			descriptorpb.FieldDescriptorProto_TYPE_FIXED64, descriptorpb.FieldDescriptorProto_TYPE_SFIXED64:
			is64 = true
		}
		out = append(out, c18Field{Full: full, Path: append([]int32{}, path...), Is64: is64, Msg: f})
	}
	var walk func(scope string, path []int32, m *descriptorpb.DescriptorProto)
	walk = func(scope string, path []int32, m *descriptorpb.DescriptorProto) {
		full := m.GetName()
		if scope != "" {
			full = scope + "." + full
		}
		for i, f := range m.Field {
			add(full, append(append([]int32{}, path...), 2, int32(i)), f)
		}
		for i, f := range m.Extension {
			add(full, append(append([]int32{}, path...), 6, int32(i)), f)
		}
		for i, n := range m.NestedType {
			walk(full, append(append([]int32{}, path...), 3, int32(i)), n)
		}
	}
	for i, m := range fd.MessageType {
		walk(fd.GetPackage(), []int32{4, int32(i)}, m)
	}
	for i, f := range fd.Extension {
		add(fd.GetPackage(), []int32{7, int32(i)}, f)
	}
	return out
}

func c18NewWorkload(r *rand.Rand, thorough bool) (*c18Workload, error) {
	cfg := gen.DefaultConfig()
	cfg.Modules = 1 + r.IntN(3)
	cfg.MinFiles, cfg.MaxFiles = 1, 3
	if thorough {
		cfg.MaxFiles = 5
	}
	cfg.Groups = true
	cfg.Rich = r.IntN(3) == 0
	cfg.Streaming = true
	s := gen.Generate(r, cfg)
	c18Decorate(r, s)
	rd := s.Render()
	w := &c18Workload{schema: s, sources: map[string]string{}, facts: map[string]c18FileFacts{}, pristine: map[string]*descriptorpb.FileDescriptorProto{},
		isImport: map[string]bool{}, fullName: map[string]bufparse.FullName{}}
	modOf := map[string]string{}
	importMod := map[string]bool{}
	for mi, m := range s.Modules {
		if mi > 0 && r.IntN(4) == 0 {
			importMod[m.Dir] = true // a dependency module: its files are imports of the image
		}
		for p, text := range rd.Files[m.Dir] {
			if _, dup := w.sources[p]; dup {
				return nil, fmt.Errorf("duplicate path %s", p)
			}
			w.sources[p] = text
			modOf[p] = m.Name
			w.isImport[p] = importMod[m.Dir]
		}
	}
	return w, w.compile(modOf)
}

// c18WorkloadFromSources builds a workload from literal sources (the regression witnesses).
func c18WorkloadFromSources(sources, modOf map[string]string) (*c18Workload, error) {
	w := &c18Workload{sources: sources, facts: map[string]c18FileFacts{}, pristine: map[string]*descriptorpb.FileDescriptorProto{},
		isImport: map[string]bool{}, fullName: map[string]bufparse.FullName{}}
	return w, w.compile(modOf)
}

// compile runs the reference compiler over the sources and fills descriptors, facts and pools.
func (w *c18Workload) compile(modOf map[string]string) error {
	var roots []string
	for p := range w.sources {
		roots = append(roots, p)
	}
	sort.Strings(roots)
	res := ref.Compile(w.sources, roots, true)
	if len(res.Errors) > 0 {
		return fmt.Errorf("workload does not compile: %+v", res.Errors[0])
	}
	modNames := map[string]bool{}
	dirSet := map[string]bool{}
	for p, fd := range res.Files {
		w.order = append(w.order, p)
		w.pristine[p] = fd
		_, own := w.sources[p]
		wkt := !own
		if wkt {
			w.isImport[p] = true
			w.pools.wktFiles = append(w.pools.wktFiles, p)
		} else {
			w.pools.files = append(w.pools.files, p)
		}
		w.facts[p] = c18FileFacts{Path: p, Module: modOf[p], Package: fd.GetPackage(), WKT: wkt}
		if name := modOf[p]; name != "" {
			fn, err := bufparse.ParseFullName(name)
			if err != nil {
				return err
			}
			w.fullName[p] = fn
			modNames[name] = true
		}
		for d := p; strings.Contains(d, "/"); {
			d = d[:strings.LastIndex(d, "/")]
			dirSet[d] = true
		}
		if !wkt {
			for _, f := range c18CollectFields(fd) {
				if f.Is64 {
					w.pools.fields64 = append(w.pools.fields64, f.Full)
				} else {
					w.pools.fieldsOther = append(w.pools.fieldsOther, f.Full)
				}
			}
		}
	}
	sort.Strings(w.order)
	for d := range dirSet {
		w.pools.dirs = append(w.pools.dirs, d)
	}
	for m := range modNames {
		w.pools.modules = append(w.pools.modules, m)
	}
	sort.Strings(w.pools.dirs)
	sort.Strings(w.pools.modules)
	sort.Strings(w.pools.files)
	sort.Strings(w.pools.wktFiles)
	sort.Strings(w.pools.fields64)
	sort.Strings(w.pools.fieldsOther)
	return nil
}

// newImage assembles a fresh bufimage.Image from clones of the pristine descriptors.
// si: "all" keeps source info everywhere, "none" strips it, "partial" strips it from the files
// selected by drop.
func (w *c18Workload) newImage(si string, drop map[string]bool) (bufimage.Image, map[string]*descriptorpb.FileDescriptorProto, error) {
	before := map[string]*descriptorpb.FileDescriptorProto{}
	var files []bufimage.ImageFile
	for _, p := range w.order {
		fd := proto.Clone(w.pristine[p]).(*descriptorpb.FileDescriptorProto)
		if si == "none" || si == "partial" && drop[p] {
			fd.SourceCodeInfo = nil
		}
		before[p] = proto.Clone(fd).(*descriptorpb.FileDescriptorProto)
		imf, err := bufimage.NewImageFile(fd, w.fullName[p], uuid.Nil, p, "", w.isImport[p], false, nil)
		if err != nil {
			return nil, nil, err
		}
		files = append(files, imf)
	}
	img, err := bufimage.NewImage(files)
	return img, before, err
}
