package checks

import (
	"archive/tar"
	"archive/zip"
	"bytes"
	"context"
	"fmt"
	"io"
	"log/slog"
	"os"
	"path/filepath"
	"sort"
	"strings"

	"github.com/bufbuild/buf/private/bufpkg/bufcas"
	"github.com/bufbuild/buf/private/bufpkg/bufprotoplugin"
	"github.com/bufbuild/buf/private/pkg/filelock"
	"github.com/bufbuild/buf/private/pkg/storage"
	"github.com/bufbuild/buf/private/pkg/storage/storagearchive"
	"github.com/bufbuild/buf/private/pkg/storage/storagemem"
	"github.com/bufbuild/buf/private/pkg/storage/storageos"
	"github.com/bufbuild/verifharness/core"
	"github.com/bufbuild/verifharness/model"
	"google.golang.org/protobuf/proto"
	"google.golang.org/protobuf/types/pluginpb"
)

// C13 — no path can escape a bucket's root.
//
// Monitor: a scratch tree base/l5/l4/l3/l2/l1/root with sentinel objects at every level outside
// root (and a parent memory bucket with objects outside every mapped prefix); after every
// operation the outside is re-inspected. Oracle: outside unchanged; no read returns sentinel
// content; no walk yields an escaping path; every lexically escaping spelling is rejected
// with an error (reference: model.AnalyzePath, independent of normalpath).

var c13Alphabet = []string{"a", "b.proto", ".", "..", "", "a.b", "..."}

const c13Batch = 192

func c13MaxLen(tier string) int {
	if tier == "thorough" {
		return 6
	}
	return 4
}

func c13Total(maxLen int) int {
	n, p := 0, 1
	for l := 1; l <= maxLen; l++ {
		p *= len(c13Alphabet)
		n += p
	}
	return 2 * n
}

// c13String returns the i-th string of the exhaustive enumeration.
func c13String(i int, maxLen int) string {
	lead := i%2 == 1
	i /= 2
	p := 1
	for l := 1; l <= maxLen; l++ {
		p *= len(c13Alphabet)
		if i < p {
			comps := make([]string, l)
			for k := 0; k < l; k++ {
				comps[k] = c13Alphabet[i%len(c13Alphabet)]
				i /= len(c13Alphabet)
			}
			s := strings.Join(comps, "/")
			if lead {
				s = "/" + s
			}
			return s
		}
		i -= p
	}
	return "a"
}

func c13RandomLong(c *core.C) string {
	l := 7 + c.Rand.IntN(8)
	if !c.Thorough() {
		l = 5 + c.Rand.IntN(6) // quick: exhaustive up to 4 components, random 5..10 beyond
	}
	comps := make([]string, l)
	for k := range comps {
		comps[k] = c13Alphabet[c.Rand.IntN(len(c13Alphabet))]
	}
	s := strings.Join(comps, "/")
	if c.Rand.IntN(4) == 0 {
		s = "/" + s
	}
	return s
}

const c13Levels = 5

var c13SentinelNames = []string{"b.proto", "a.b", "...", "a/b.proto", "a/a.b", "a/a", "root.txt", "rootx/b.proto", "rootx/in.proto", "rootx/a/in.proto", "l1x/root/in.proto", "l1x/b.proto"}

// c13SiblingPaths: spellings that climb out of the root and come back down into a SIBLING whose name has the root's
// name (or the name of a directory above it) as a string prefix: root → rootx, root.txt; l1 → l1x; x → xx. A view
// that decides containment on strings instead of path components lets exactly these through.
func c13SiblingPaths() []string {
	ups := []string{"..", "./..", "a/../..", "..//.", "a/b.proto/../../..", "a/./../..", "../.", ".//.."}
	sibs := []string{"rootx", "root.txt", "rootx/a", "root/../rootx", "../l1x", "../l1x/root", "../xx/root", "../l1/rootx", "../x/rootx"}
	tails := []string{"", "b.proto", "in.proto", "a", "a/in.proto"}
	var out []string
	for _, u := range ups {
		for _, sb := range sibs {
			for _, t := range tails {
				p := u + "/" + sb
				if t != "" {
					p += "/" + t
				}
				out = append(out, p)
			}
		}
	}
	return out
}

type c13World struct {
	base    string // base/l5/…/l1/root
	rootDir string
	l1Dir   string
	l2Dir   string
	outside map[string]string // snapshot of base minus root
	mem     storage.ReadWriteBucket
	memSnap map[string]string
}

func c13LevelDir(base string, level int) string {
	// level 1 = parent of root … level 5; level 6 = base
	d := base
	for l := c13Levels; l >= level; l-- {
		d = filepath.Join(d, fmt.Sprintf("l%d", l))
	}
	return d
}

func c13Build(base string) (*c13World, error) {
	os.RemoveAll(base)
	w := &c13World{base: base}
	for level := 1; level <= c13Levels+1; level++ {
		dir := base
		if level <= c13Levels {
			dir = c13LevelDir(base, level)
		}
		for _, name := range c13SentinelNames {
			p := filepath.Join(dir, filepath.FromSlash(name))
			if err := os.MkdirAll(filepath.Dir(p), 0o755); err != nil {
				return nil, err
			}
			if err := os.WriteFile(p, []byte(fmt.Sprintf("SENTINEL:l%d:%s", level, name)), 0o644); err != nil {
				return nil, err
			}
		}
	}
	w.l1Dir = c13LevelDir(base, 1)
	w.l2Dir = c13LevelDir(base, 2)
	w.rootDir = filepath.Join(w.l1Dir, "root")
	if err := c13ResetRoot(w); err != nil {
		return nil, err
	}
	w.outside = c13Outside(w)
	// parent memory bucket: objects outside the prefixes "root" and "x/root"
	w.mem = storagemem.NewReadWriteBucket()
	ctx := context.Background()
	for _, name := range []string{"b.proto", "a.b", "...", "a/b.proto", "a/a.b", "a/a", "x/b.proto", "x/a.b", "x/...", "x/a/b.proto", "x/a/a", "rootx/b.proto", "x/rootx/a",
		"rootx/in.proto", "rootx/a/in.proto", "root.txt", "x/root.txt", "x/rootx/in.proto", "x/rootx/b.proto", "x/rootx/a/in.proto", "xx/root/in.proto", "xx/root/b.proto"} {
		if err := storage.PutPath(ctx, w.mem, name, []byte("SENTINEL:mem:"+name)); err != nil {
			return nil, err
		}
	}
	for _, name := range []string{"root/in.proto", "x/root/in.proto"} {
		if err := storage.PutPath(ctx, w.mem, name, []byte("inside")); err != nil {
			return nil, err
		}
	}
	w.memSnap = c13MemOutside(w)
	return w, nil
}

func c13ResetRoot(w *c13World) error {
	os.RemoveAll(w.rootDir)
	if err := os.MkdirAll(filepath.Join(w.rootDir, "a"), 0o755); err != nil {
		return err
	}
	if err := os.WriteFile(filepath.Join(w.rootDir, "in.proto"), []byte("inside"), 0o644); err != nil {
		return err
	}
	return os.WriteFile(filepath.Join(w.rootDir, "a", "in.proto"), []byte("inside"), 0o644)
}

// c13Outside: lstat-level snapshot (type, size, mtime) of everything under base except root.
func c13Outside(w *c13World) map[string]string {
	out := map[string]string{}
	filepath.Walk(w.base, func(p string, info os.FileInfo, err error) error {
		if err != nil {
			out[p] = "err"
			return nil
		}
		if p == w.rootDir {
			// the root directory itself is the bucket, not its outside: DeleteAll(".") may remove it
			return filepath.SkipDir
		}
		if info.IsDir() {
			out[p] = "dir"
		} else {
			out[p] = fmt.Sprintf("%v:%d:%d", info.Mode(), info.Size(), info.ModTime().UnixNano())
		}
		return nil
	})
	return out
}

func c13MemOutside(w *c13World) map[string]string {
	out := map[string]string{}
	ctx := context.Background()
	w.mem.Walk(ctx, "", func(info storage.ObjectInfo) error {
		p := info.Path()
		if strings.HasPrefix(p, "root/") || strings.HasPrefix(p, "x/root/") {
			return nil
		}
		data, err := storage.ReadPath(ctx, w.mem, p)
		if err != nil {
			out[p] = "err"
		} else {
			out[p] = string(data)
		}
		return nil
	})
	return out
}

func c13ResetMemInside(w *c13World) {
	ctx := context.Background()
	w.mem.DeleteAll(ctx, "root")
	w.mem.DeleteAll(ctx, "x/root")
	storage.PutPath(ctx, w.mem, "root/in.proto", []byte("inside"))
	storage.PutPath(ctx, w.mem, "x/root/in.proto", []byte("inside"))
}

func diffMaps(a, b map[string]string) string {
	var d []string
	for k, v := range a {
		if w, ok := b[k]; !ok {
			d = append(d, "removed:"+k)
		} else if w != v {
			d = append(d, "changed:"+k)
		}
	}
	for k := range b {
		if _, ok := a[k]; !ok {
			d = append(d, "added:"+k)
		}
	}
	sort.Strings(d)
	if len(d) > 6 {
		d = append(d[:6], fmt.Sprintf("…(+%d)", len(d)-6))
	}
	return strings.Join(d, ",")
}

type c13Kind struct {
	name     string
	rw       storage.ReadWriteBucket
	ro       storage.ReadBucket // set for read-only kinds
	disk     bool
	mem      bool
	hasWorld bool // has an outside that can be violated
}

func c13Kinds(w *c13World) ([]c13Kind, error) {
	prov := storageos.NewProvider()
	rootB, err := prov.NewReadWriteBucket(w.rootDir)
	if err != nil {
		return nil, err
	}
	provSym := storageos.NewProvider(storageos.ProviderWithSymlinks())
	rootSym, err := provSym.NewReadWriteBucket(w.rootDir, storageos.ReadWriteBucketWithSymlinksIfSupported())
	if err != nil {
		return nil, err
	}
	l1B, err := prov.NewReadWriteBucket(w.l1Dir)
	if err != nil {
		return nil, err
	}
	l2B, err := prov.NewReadWriteBucket(w.l2Dir)
	if err != nil {
		return nil, err
	}
	kinds := []c13Kind{
		{name: "disk", rw: rootB, disk: true, hasWorld: true},
		{name: "disk-symlinks", rw: rootSym, disk: true, hasWorld: true},
		{name: "mem", rw: storagemem.NewReadWriteBucket(), mem: true},
		{name: "map(disk@l1,root)", rw: storage.MapReadWriteBucket(l1B, storage.MapOnPrefix("root")), disk: true, hasWorld: true},
		{name: "map(map(disk@l2,l1),root)", rw: storage.MapReadWriteBucket(storage.MapReadWriteBucket(l2B, storage.MapOnPrefix("l1")), storage.MapOnPrefix("root")), disk: true, hasWorld: true},
		{name: "mapchain(disk@l2,l1,root)", rw: storage.MapReadWriteBucket(l2B, storage.MapOnPrefix("l1"), storage.MapOnPrefix("root")), disk: true, hasWorld: true},
		{name: "map(disk@l2,l1/root)", rw: storage.MapReadWriteBucket(l2B, storage.MapOnPrefix("l1/root")), disk: true, hasWorld: true},
		{name: "map(mem,root)", rw: storage.MapReadWriteBucket(w.mem, storage.MapOnPrefix("root")), mem: true, hasWorld: true},
		{name: "map(mem,x/root)", rw: storage.MapReadWriteBucket(w.mem, storage.MapOnPrefix("x/root")), mem: true, hasWorld: true},
		{name: "map(map(mem,x),root)", rw: storage.MapReadWriteBucket(storage.MapReadWriteBucket(w.mem, storage.MapOnPrefix("x")), storage.MapOnPrefix("root")), mem: true, hasWorld: true},
		{name: "filter(disk,.proto)", ro: storage.FilterReadBucket(rootB, storage.MatchPathExt(".proto")), disk: true, hasWorld: true},
		{name: "filter(map(disk@l1,root),contained a)", ro: storage.FilterReadBucket(storage.MapReadBucket(l1B, storage.MapOnPrefix("root")), storage.MatchPathContained("a")), disk: true, hasWorld: true},
		{name: "multi(map(disk@l1,root),map(mem,root))", ro: storage.MultiReadBucket(storage.MapReadBucket(l1B, storage.MapOnPrefix("root")), storage.MapReadBucket(w.mem, storage.MapOnPrefix("x/root"))), disk: true, mem: true, hasWorld: true},
		{name: "overlay(map(mem,root),disk)", ro: storage.OverlayReadBucket(storage.MapReadBucket(w.mem, storage.MapOnPrefix("root")), rootB), disk: true, mem: true, hasWorld: true},
		{name: "strip(disk)", ro: storage.StripReadBucketExternalPaths(rootB), disk: true, hasWorld: true},
		{name: "limit(map(disk@l1,root))", rw: c13rw{storage.MapReadBucket(l1B, storage.MapOnPrefix("root")), storage.LimitWriteBucket(storage.MapWriteBucket(l1B, storage.MapOnPrefix("root")), 1<<20)}, disk: true, hasWorld: true},
	}
	return kinds, nil
}

type c13rw struct {
	storage.ReadBucket
	storage.WriteBucket
}

func c13Run(c *core.C, idx int) {
	maxLen := c13MaxLen(c.Tier)
	total := c13Total(maxLen)
	nExh := (total + c13Batch - 1) / c13Batch
	base := filepath.Join(c.Tmp, "c13")
	w, err := c13Build(base)
	if err != nil {
		c.Note("setup failed: %v", err)
		return
	}
	defer os.RemoveAll(base)
	kinds, err := c13Kinds(w)
	if err != nil {
		c.Note("kinds failed: %v", err)
		return
	}
	var paths []string
	if idx < nExh {
		for i := idx * c13Batch; i < (idx+1)*c13Batch && i < total; i++ {
			paths = append(paths, c13String(i, maxLen))
		}
	} else if idx == nExh {
		paths = c13SiblingPaths()
		c.Count("sibling_paths", len(paths))
	} else {
		for i := 0; i < c13Batch; i++ {
			paths = append(paths, c13RandomLong(c))
		}
	}
	ctx := context.Background()
	for _, p := range paths {
		info := model.AnalyzePath(p)
		c.Count("paths", 1)
		if info.Escapes {
			c.Count("escaping_paths", 1)
		}
		c.Nontrivial(p)
		c.Distinct("shape", fmt.Sprintf("abs=%v up=%d rest=%d", info.Absolute, min(info.Up, 3), min(len(info.Rest), 3)))
		for ki := range kinds {
			k := &kinds[ki]
			c13Ops(ctx, c, w, k, p, info)
		}
		c13Archives(ctx, c, w, kinds, p, info)
		c13Misc(ctx, c, w, p, info)
		c13Prefix(ctx, c, w, p, info)
		// restore the inside for the next string
		c13ResetRoot(w)
		c13ResetMemInside(w)
	}
	if idx == 0 {
		c.Sample(map[string]any{"paths": paths[:6], "kinds": func() []string {
			var n []string
			for _, k := range kinds {
				n = append(n, k.name)
			}
			return n
		}(), "ops": []string{"get", "stat", "exists", "walk", "isempty", "put", "put-atomic", "delete", "deleteall", "putpath", "copypath", "untar(strip 0..2)", "unzip(strip 0..2)", "NewFileNode", "filelock", "protoplugin response"}})
	}
}

// c13After inspects the outside after one operation and records the verdict for it.
func c13After(c *core.C, w *c13World, k *c13Kind, op, p string, info model.PathInfo, err error, mutating bool) {
	c.Eval(1)
	key := fmt.Sprintf("kind=%s op=%s path=%q", k.name, op, p)
	if info.Escapes && err == nil {
		c.Violation("escape-accepted", key, fmt.Sprintf("escaping spelling %q accepted by %s on %s (no error)", p, op, k.name), nil)
	}
	if info.Escapes {
		c.Count("rejections_checked", 1)
	}
	if !k.hasWorld {
		return
	}
	if k.disk && mutating {
		now := c13Outside(w)
		if d := diffMaps(w.outside, now); d != "" {
			c.Violation("outside-modified", key, fmt.Sprintf("%s(%q) on %s changed objects outside the bucket root: %s (err=%v)", op, p, k.name, d, err), nil)
			// rebuild the world: the operation may have destroyed it
			if nw, berr := c13Build(w.base); berr == nil {
				*w = *nw
				if ks, kerr := c13Kinds(w); kerr == nil {
					_ = ks
				}
			}
		}
		c.Count("outside_snapshots", 1)
	}
	if k.mem && mutating {
		now := c13MemOutside(w)
		if d := diffMaps(w.memSnap, now); d != "" {
			c.Violation("outside-modified", key, fmt.Sprintf("%s(%q) on %s changed objects outside the mapped prefix: %s (err=%v)", op, p, k.name, d, err), nil)
			ctx := context.Background()
			for name, content := range w.memSnap {
				storage.PutPath(ctx, w.mem, name, []byte(content))
			}
			for name := range now {
				if _, ok := w.memSnap[name]; !ok {
					w.mem.Delete(ctx, name)
				}
			}
		}
		c.Count("outside_snapshots", 1)
	}
}

func c13CheckRead(c *core.C, k *c13Kind, op, p string, data []byte) {
	if bytes.HasPrefix(data, []byte("SENTINEL")) {
		c.Violation("outside-read", fmt.Sprintf("kind=%s op=%s path=%q", k.name, op, p),
			fmt.Sprintf("%s(%q) on %s returned content of an object outside the root: %q", op, p, k.name, data), nil)
	}
}

func c13Ops(ctx context.Context, c *core.C, w *c13World, k *c13Kind, p string, info model.PathInfo) {
	var rb storage.ReadBucket = k.ro
	if k.rw != nil {
		rb = k.rw
	}
	// get
	{
		obj, err := rb.Get(ctx, p)
		if err == nil {
			data, _ := io.ReadAll(obj)
			obj.Close()
			c13CheckRead(c, k, "get", p, data)
			if pi := model.AnalyzePath(obj.Path()); pi.Escapes {
				c.Violationf("escaping-object-path", fmt.Sprintf("kind=%s op=get path=%q", k.name, p), "object path %q escapes", obj.Path())
			}
		}
		c13After(c, w, k, "get", p, info, err, false)
	}
	{
		oi, err := rb.Stat(ctx, p)
		if err == nil {
			if pi := model.AnalyzePath(oi.Path()); pi.Escapes {
				c.Violationf("escaping-object-path", fmt.Sprintf("kind=%s op=stat path=%q", k.name, p), "object path %q escapes", oi.Path())
			}
			if ep := filepath.Clean(oi.ExternalPath()); k.disk && !k.mem && ep != w.rootDir && !strings.HasPrefix(ep, w.rootDir+string(filepath.Separator)) && k.name != "strip(disk)" {
				c.Violationf("outside-read", fmt.Sprintf("kind=%s op=stat path=%q", k.name, p), "stat resolved to %q outside root", oi.ExternalPath())
			}
		}
		c13After(c, w, k, "stat", p, info, err, false)
	}
	{
		var seen []string
		err := rb.Walk(ctx, p, func(oi storage.ObjectInfo) error {
			seen = append(seen, oi.Path())
			return nil
		})
		for _, sp := range seen {
			pi := model.AnalyzePath(sp)
			if pi.Escapes {
				c.Violationf("escaping-object-path", fmt.Sprintf("kind=%s op=walk path=%q", k.name, p), "walk(%q) yielded escaping path %q", p, sp)
				break
			}
			// every walked object must be readable as an inside object
			if data, rerr := storage.ReadPath(ctx, rb, sp); rerr == nil {
				c13CheckRead(c, k, "walk+get", p, data)
			}
		}
		c13After(c, w, k, "walk", p, info, err, false)
	}
	{
		_, err := storage.IsEmpty(ctx, rb, p)
		c13After(c, w, k, "isempty", p, info, err, false)
	}
	if k.rw == nil {
		return
	}
	for _, atomic := range []bool{false, true} {
		op := "put"
		var opts []storage.PutOption
		if atomic {
			op = "put-atomic"
			opts = append(opts, storage.PutWithAtomic())
		}
		wo, err := k.rw.Put(ctx, p, opts...)
		if err == nil {
			_, werr := wo.Write([]byte("NEW"))
			cerr := wo.Close()
			if werr != nil {
				err = werr
			} else if cerr != nil {
				err = cerr
			}
		}
		c13After(c, w, k, op, p, info, err, true)
	}
	{
		err := storage.CopyPath(ctx, c13Src, "src.txt", k.rw, p)
		c13After(c, w, k, "copypath", p, info, err, true)
	}
	{
		err := k.rw.Delete(ctx, p)
		c13After(c, w, k, "delete", p, info, err, true)
	}
	{
		err := k.rw.DeleteAll(ctx, p)
		c13After(c, w, k, "deleteall", p, info, err, true)
	}
}

var c13Src = func() storage.ReadBucket {
	b, _ := storagemem.NewReadBucket(map[string][]byte{"src.txt": []byte("NEW")})
	return b
}()

func c13Archives(ctx context.Context, c *core.C, w *c13World, kinds []c13Kind, p string, info model.PathInfo) {
	// tar with one regular entry named p (plus a benign one)
	var tarBuf bytes.Buffer
	tw := tar.NewWriter(&tarBuf)
	tarOK := tw.WriteHeader(&tar.Header{Name: p, Mode: 0o644, Size: 3, Typeflag: tar.TypeReg, Format: tar.FormatPAX}) == nil
	if tarOK {
		tw.Write([]byte("NEW"))
		tw.WriteHeader(&tar.Header{Name: "ok/ok.proto", Mode: 0o644, Size: 2, Typeflag: tar.TypeReg})
		tw.Write([]byte("ok"))
		tarOK = tw.Close() == nil
	}
	// a symlink entry whose target is p, followed by a regular entry beneath the link's name: an
	// unpacker that materialised the link would write through it
	var linkBuf bytes.Buffer
	lw := tar.NewWriter(&linkBuf)
	linkOK := lw.WriteHeader(&tar.Header{Name: "lnk", Linkname: p, Mode: 0o777, Typeflag: tar.TypeSymlink, Format: tar.FormatPAX}) == nil
	if linkOK {
		lw.WriteHeader(&tar.Header{Name: "lnk/b.proto", Mode: 0o644, Size: 3, Typeflag: tar.TypeReg, Format: tar.FormatPAX})
		lw.Write([]byte("NEW"))
		lw.WriteHeader(&tar.Header{Name: "hard", Linkname: p, Mode: 0o644, Typeflag: tar.TypeLink, Format: tar.FormatPAX})
		linkOK = lw.Close() == nil
	}
	var zipBuf bytes.Buffer
	zw := zip.NewWriter(&zipBuf)
	zipOK := false
	if f, err := zw.Create(p); err == nil {
		f.Write([]byte("NEW"))
		if f2, err := zw.Create("ok/ok.proto"); err == nil {
			f2.Write([]byte("ok"))
		}
		zipOK = zw.Close() == nil
	}
	for ki := range kinds {
		k := &kinds[ki]
		if k.rw == nil {
			continue
		}
		if linkOK && k.disk {
			err := storagearchive.Untar(ctx, bytes.NewReader(linkBuf.Bytes()), k.rw)
			c13After(c, w, k, "untar(symlink+hardlink entries)", p, model.PathInfo{}, err, true)
			c.Count("archive_link_ops", 1)
			// neither link may exist as a link inside the root
			for _, name := range []string{"lnk", "hard"} {
				if fi, lerr := os.Lstat(filepath.Join(w.rootDir, name)); lerr == nil && fi.Mode()&os.ModeSymlink != 0 {
					c.Violation("archive-symlink-materialised", fmt.Sprintf("kind=%s op=untar path=%q", k.name, p), "a symlink entry of the archive was created on disk: "+name, nil)
				}
			}
		}
		for strip := uint32(0); strip <= 2; strip++ {
			if tarOK {
				err := storagearchive.Untar(ctx, bytes.NewReader(tarBuf.Bytes()), k.rw, storagearchive.UntarWithStripComponentCount(strip))
				// the entry name as written in the archive is what the statement calls the name: one that escapes is
				// rejected whatever number of leading components the caller asks to strip afterwards
				rej := info
				c13After(c, w, k, fmt.Sprintf("untar(strip=%d)", strip), p, rej, err, true)
				c.Count("archive_ops", 1)
			}
			if zipOK {
				err := storagearchive.Unzip(ctx, bytes.NewReader(zipBuf.Bytes()), int64(zipBuf.Len()), k.rw, storagearchive.UnzipWithStripComponentCount(strip))
				rej := info
				// archive/zip itself refuses some names on read (ErrInsecurePath is off by default); an error is fine
				c13After(c, w, k, fmt.Sprintf("unzip(strip=%d)", strip), p, rej, err, true)
				c.Count("archive_ops", 1)
			}
		}
	}
}

var c13Digest = func() bufcas.Digest {
	d, err := bufcas.NewDigestForContent(strings.NewReader("x"))
	if err != nil {
		panic(err)
	}
	return d
}()

func c13Misc(ctx context.Context, c *core.C, w *c13World, p string, info model.PathInfo) {
	misc := &c13Kind{name: "misc", hasWorld: true, disk: true}
	// bufcas.NewFileNode: manifests must never carry an escaping path
	{
		_, err := bufcas.NewFileNode(p, c13Digest)
		c13After(c, w, &c13Kind{name: "bufcas.NewFileNode"}, "new", p, info, err, false)
	}
	// filelock under root
	{
		locker, lerr := filelock.NewLocker(w.rootDir)
		if lerr == nil {
			u, err := locker.Lock(ctx, p)
			if err == nil {
				u.Unlock()
			}
			c13After(c, w, misc, "filelock.Lock", p, info, err, true)
		}
	}
	// plugin response file names written through the protoplugin response writer
	{
		prov := storageos.NewProvider()
		rootB, err := prov.NewReadWriteBucket(w.rootDir)
		if err == nil {
			rw := bufprotoplugin.NewResponseWriter(slog.New(slog.NewTextHandler(io.Discard, nil)))
			resp := &pluginpb.CodeGeneratorResponse{File: []*pluginpb.CodeGeneratorResponse_File{{Name: proto.String(p), Content: proto.String("NEW")}}}
			err = rw.WriteResponse(ctx, rootB, resp)
			c13After(c, w, &c13Kind{name: "protoplugin.WriteResponse(disk)", disk: true, hasWorld: true}, "write", p, info, err, true)
			memView := storage.MapReadWriteBucket(w.mem, storage.MapOnPrefix("root"))
			err = rw.WriteResponse(ctx, memView, resp, bufprotoplugin.WriteResponseWithInsertionPointReadBucket(memView))
			c13After(c, w, &c13Kind{name: "protoplugin.WriteResponse(map(mem,root))", mem: true, hasWorld: true}, "write", p, info, err, true)
			// insertion point into a file named p
			resp2 := &pluginpb.CodeGeneratorResponse{File: []*pluginpb.CodeGeneratorResponse_File{{Name: proto.String(p), InsertionPoint: proto.String("ip"), Content: proto.String("NEW")}}}
			err = rw.WriteResponse(ctx, rootB, resp2, bufprotoplugin.WriteResponseWithInsertionPointReadBucket(rootB))
			if err == nil && !info.Escapes {
				// fine: nothing demanded
			}
			c13After(c, w, &c13Kind{name: "protoplugin.InsertionPoint(disk)", disk: true, hasWorld: true}, "write", p, model.PathInfo{}, err, true)
		}
	}
}

func init() {
	core.Register(&core.Check{
		ID:    "C13",
		Level: "exploration",
		Rule: "exhaustive enumeration of path strings over the component alphabet {a, b.proto, ., .., '', a.b, ...} joined by '/', with and without a leading '/', " +
			"1..4 components (quick) / 1..6 (thorough), plus random strings of 5..10 (quick) / 7..14 (thorough) components; every string is driven through get/stat/walk/isempty/put/put-atomic/copypath/delete/deleteall, " +
			"untar/unzip (strip 0..2), NewFileNode, filelock and the protoplugin response writer on 16 bucket kinds, and additionally used as the MAPPING PREFIX of 9 views stacked on a view of the root (get/stat/walk/put/delete/deleteall of harmless names through them); a case is distinct/non-trivial per distinct path string; " +
			"'shape' counts distinct (absolute, levels climbed, remaining components) classes; second part: CLI boundary cases (config-supplied directories, --path values, plugin names)",
		Assumptions: []string{
			"lexical escape model (model.AnalyzePath) is the definition of 'escapes'; symlink-based escapes are out of scope of the statement (lexical components only)",
			"outside-unchanged is observed with lstat (type,size,mtime) snapshots of 5 directory levels above the root and content snapshots of the parent memory bucket",
			"for archive entries the rejection is demanded of the entry name as written in the archive, whatever the strip-components count (0..2); the safety clause (outside unchanged) is enforced in every case",
		},
		Exhaustive: true,
		Cases: func(tier string) int {
			n := (c13Total(c13MaxLen(tier)) + c13Batch - 1) / c13Batch
			if tier == "thorough" {
				return n + 100 + c13CLICases(tier)
			}
			return n + 16 + c13CLICases(tier)
		},
		Run: func(c *core.C, idx int) {
			n := (c13Total(c13MaxLen(c.Tier)) + c13Batch - 1) / c13Batch
			extra := 16
			if c.Thorough() {
				extra = 100
			}
			if idx < n+extra {
				c13Run(c, idx)
			} else {
				c13CLI(c, idx-n-extra)
			}
		},
		Required: []string{"paths", "prefix_views", "escaping_paths", "outside_snapshots", "archive_ops", "archive_link_ops", "rejections_checked", "cli_runs", "cli_escaping_runs", "sibling_paths"},
	})
}
