// Package checks links every property check into the harness binary.
package checks
