package checks

import (
	"context"
	"fmt"
	"math/rand/v2"
	"os"
	"path"
	"path/filepath"
	"sort"
	"strings"

	"github.com/bufbuild/verifharness/core"
	"github.com/bufbuild/verifharness/model"
)

// C08 — module digests are a pure, sensitive function of content; manifests canonical.
//
// Workload: a random "universe" of 1..N modules (file sets over a hostile path alphabet, every
// doc/license combination, non-module files, empty/large/binary contents) whose .proto files
// import each other across modules (a random DAG). The universe is a plain data structure of
// this file; the module dependency graph and every expected digest are computed from it without
// buf code (graph model + model.B5).
//
// Monitor/oracle clauses (violation classes):
//   b5-differs-from-construction   Module.Digest(b5) != SHAKE256 construction over the model
//   digest-differs-across-presentations  same universe, other backend / frame: different b5 or b4
//   digest-insensitive             a module-file / dependency perturbation left a digest unchanged
//   digest-oversensitive           a non-module perturbation (or one in an unrelated module) changed it
//   digest-error                   Build/Digest failed on an in-domain universe
//   manifest-text-differs, manifest-roundtrip, filenode-roundtrip, manifest-order, fileset-*   (c08manifest.go)
//   remote-*                       pinned-dependency remote modules and tamper proofing (c08remote.go)

// ---- universe -----------------------------------------------------------------------------------

type c08Proto struct {
	Path    string
	Style   int // 0 proto3, 1 proto2, 2 editions, 3 no syntax line, 4 empty file (no imports possible)
	Pkg     string
	Imports []string
	Payload []byte // free text inside a trailing line comment (never contains \n or \r)
	Decoy   bool   // a commented-out import of a file that exists nowhere
}

type c08Mod struct {
	Protos []*c08Proto
	Other  map[string][]byte // LICENSE, docs and non-module files
}

type c08Universe struct {
	Mods []*c08Mod
}

func (u *c08Universe) clone() *c08Universe {
	out := &c08Universe{}
	for _, m := range u.Mods {
		nm := &c08Mod{Other: map[string][]byte{}}
		for _, p := range m.Protos {
			q := *p
			q.Imports = append([]string{}, p.Imports...)
			q.Payload = append([]byte{}, p.Payload...)
			nm.Protos = append(nm.Protos, &q)
		}
		for k, v := range m.Other {
			nm.Other[k] = append([]byte{}, v...)
		}
		out.Mods = append(out.Mods, nm)
	}
	return out
}

func c08Quote(s string) string {
	// proto string literal; import targets are restricted to characters that need no escaping
	return `"` + s + `"`
}

func (p *c08Proto) render() []byte {
	if p.Style == 4 {
		return []byte{}
	}
	var sb strings.Builder
	switch p.Style {
	case 0:
		sb.WriteString("syntax = \"proto3\";\n")
	case 1:
		sb.WriteString("// leading comment\nsyntax = \"proto2\";\n")
	case 2:
		sb.WriteString("edition = \"2023\";\n")
	}
	if p.Pkg != "" {
		sb.WriteString("package " + p.Pkg + ";\n")
	}
	if p.Decoy {
		sb.WriteString("// import \"nowhere/decoy.proto\";\n/* import \"nowhere/decoy2.proto\"; */\n")
	}
	for i, imp := range p.Imports {
		switch {
		case i%5 == 3:
			sb.WriteString("import public " + c08Quote(imp) + ";\n")
		case i%4 == 1:
			// a weak import is an import: the module that owns the file is a dependency all the same
			sb.WriteString("import weak " + c08Quote(imp) + ";\n")
		case i%7 == 5:
			sb.WriteString("import   " + c08Quote(imp) + "  ;  // trailing\n")
		default:
			sb.WriteString("import " + c08Quote(imp) + ";\n")
		}
	}
	if p.Decoy {
		sb.WriteString("option java_package = \"import \\\"nowhere/decoy3.proto\\\";\";\n")
	}
	sb.WriteString("message M { string s = 1; }\n")
	sb.WriteString("// ")
	sb.Write(p.Payload)
	sb.WriteString("\n")
	return []byte(sb.String())
}

// files renders the complete bucket content of a module.
func (m *c08Mod) files() map[string][]byte {
	out := map[string][]byte{}
	for k, v := range m.Other {
		out[k] = v
	}
	for _, p := range m.Protos {
		out[p.Path] = p.render()
	}
	return out
}

// ---- graph model ----------------------------------------------------------------------------------

// owner maps every proto path of the universe to its module index.
func (u *c08Universe) owner() map[string]int {
	o := map[string]int{}
	for i, m := range u.Mods {
		for _, p := range m.Protos {
			o[p.Path] = i
		}
	}
	return o
}

// closure returns, per module, the sorted set of modules it depends on directly or transitively
// through import statements (imports of paths owned by no module — well-known types — add nothing).
func (u *c08Universe) closure() [][]int {
	own := u.owner()
	direct := make([]map[int]bool, len(u.Mods))
	for i, m := range u.Mods {
		direct[i] = map[int]bool{}
		for _, p := range m.Protos {
			if p.Style == 4 {
				continue
			}
			for _, imp := range p.Imports {
				if j, ok := own[imp]; ok && j != i {
					direct[i][j] = true
				}
			}
		}
	}
	out := make([][]int, len(u.Mods))
	for i := range u.Mods {
		seen := map[int]bool{}
		var rec func(k int)
		rec = func(k int) {
			for j := range direct[k] {
				if !seen[j] {
					seen[j] = true
					rec(j)
				}
			}
		}
		rec(i)
		for j := range seen {
			out[i] = append(out[i], j)
		}
		sort.Ints(out[i])
	}
	return out
}

// modelB5 computes every module's b5 with the independent construction, recursively over the graph model.
func (u *c08Universe) modelB5() []string {
	cl := u.closure()
	out := make([]string, len(u.Mods))
	done := make([]bool, len(u.Mods))
	var rec func(i int) string
	rec = func(i int) string {
		if done[i] {
			return out[i]
		}
		var deps []string
		for _, j := range cl[i] {
			deps = append(deps, rec(j))
		}
		out[i] = model.B5(u.Mods[i].files(), deps)
		done[i] = true
		return out[i]
	}
	for i := range u.Mods {
		rec(i)
	}
	return out
}

// dependants returns the modules whose closure contains k.
func (u *c08Universe) dependants(k int) map[int]bool {
	out := map[int]bool{}
	for i, c := range u.closure() {
		for _, j := range c {
			if j == k {
				out[i] = true
			}
		}
	}
	return out
}

// ---- generation -----------------------------------------------------------------------------------

var c08Comps = []string{"a", "b", "pkg", "v1", "x y", "x  y", " lead", "trail ", "ü", "日本語", "a.b", ".dot", "Ω-1", "p+q", "d.proto", "e e  e", "q'q", "100%", "[br]", "é è"}
var c08UnimportableComps = []string{"tab\there", "quo\"te", "back\\slash", "cr\rx"}

var c08NonModule = []string{"x.txt", "sub/README.md", "sub/LICENSE", "sub/buf.md", "buf.yaml", "buf.lock", "buf.work.yaml", "a.protox", "proto", "b.proto.bak",
	"readme.md", "License", "LICENSE.txt", "X.PROTO", "buf.md.txt", "docs/README.markdown", "x  y/n  m.txt", "ü/ñ.txt", "buf.gen.yaml", "sub/x.prot", ".proto.swp", "LICENSE.md", "README", "README.MD"}

var c08Docs = []string{"buf.md", "README.md", "README.markdown"}

type c08Gen struct {
	r        *rand.Rand
	thorough bool
	used     map[string]bool // every path of the universe (files) — kept prefix-free
	dirs     map[string]bool // every directory implied by used paths
	uniq     int
}

func (g *c08Gen) fresh(p string) bool {
	if g.used[p] || g.dirs[p] {
		return false
	}
	for d := path.Dir(p); d != "."; d = path.Dir(d) {
		if g.used[d] {
			return false
		}
	}
	return true
}

func (g *c08Gen) take(p string) {
	g.used[p] = true
	for d := path.Dir(p); d != "."; d = path.Dir(d) {
		g.dirs[d] = true
	}
}

func c08Importable(p string) bool {
	for _, r := range p {
		if r < 0x20 || r == '"' || r == '\\' || r == 0x7f {
			return false
		}
	}
	return true
}

// protoPath draws a fresh .proto path. importable paths avoid characters that would need escaping
// inside an import string literal.
func (g *c08Gen) protoPath(importable bool) string {
	for {
		maxDepth := 4
		if g.thorough {
			maxDepth = 9
		}
		depth := g.r.IntN(maxDepth)
		if g.r.IntN(4) == 0 {
			depth = 0
		}
		var comps []string
		for i := 0; i <= depth; i++ {
			comp := c08Comps[g.r.IntN(len(c08Comps))]
			if !importable && g.r.IntN(3) == 0 {
				comp = c08UnimportableComps[g.r.IntN(len(c08UnimportableComps))]
			}
			comps = append(comps, comp)
		}
		last := comps[len(comps)-1]
		switch g.r.IntN(10) {
		case 0:
			last = "" // base ".proto"
		case 1:
			last = fmt.Sprintf("%s%d", last, g.r.IntN(100))
		case 2:
			last = "LICENSE"
		case 3:
			last = "README.md"
		}
		if strings.HasSuffix(last, ".proto") {
			last = "f"
		}
		comps[len(comps)-1] = last + ".proto"
		if strings.HasPrefix(comps[len(comps)-1], "._") {
			continue
		}
		p := strings.Join(comps, "/")
		if importable && !c08Importable(p) {
			continue
		}
		if g.fresh(p) {
			g.take(p)
			return p
		}
	}
}

func (g *c08Gen) bytes(kind string) []byte {
	g.uniq++
	r := g.r
	switch r.IntN(8) {
	case 0:
		return []byte{}
	case 1: // arbitrary binary
		n := 1 + r.IntN(300)
		b := make([]byte, n)
		for i := range b {
			b[i] = byte(r.IntN(256))
		}
		return b
	case 2: // large
		n := 100_000 + r.IntN(200_000)
		if g.thorough && r.IntN(4) == 0 {
			n = 2_000_000 + r.IntN(1_000_000)
		}
		b := make([]byte, n)
		seed := byte(g.uniq)
		for i := range b {
			b[i] = seed + byte(i*7) + byte(i>>8)
		}
		return b
	case 3:
		return []byte("\n")
	case 4: // looks like a manifest line
		return []byte("shake256:" + strings.Repeat("0", 128) + "  " + kind + "\n")
	default:
		return []byte(fmt.Sprintf("%s content #%d\nline two é\n", kind, g.uniq))
	}
}

const c08PayloadAlphabet = "abcdefghijklmnopqrstuvwxyzABCDEFGHIJKLMNOPQRSTUVWXYZ0123456789 _-+=;:'\"{}()[]<>/*#@!?.,"

func (g *c08Gen) payload() []byte {
	r := g.r
	g.uniq++
	n := 1 + r.IntN(60)
	switch r.IntN(12) {
	case 0:
		n = 50_000 + r.IntN(150_000)
		if g.thorough && r.IntN(3) == 0 {
			n = 1_500_000
		}
	}
	b := make([]byte, n)
	for i := range b {
		b[i] = c08PayloadAlphabet[r.IntN(len(c08PayloadAlphabet))]
	}
	tag := fmt.Sprintf("p%d ", g.uniq)
	copy(b, tag)
	if r.IntN(6) == 0 {
		b = append(b, []byte(" ünïcödé 日本")...)
	}
	return b
}

// c08Generate draws a universe. Module i may import from modules j < i (so the module graph is a DAG).
func c08Generate(r *rand.Rand, thorough bool) *c08Universe {
	g := &c08Gen{r: r, thorough: thorough, used: map[string]bool{}, dirs: map[string]bool{}}
	// the fixed non-module and doc/license names are files of every module's own bucket, not of the
	// universe-wide proto namespace; reserve their names and directories so that no proto path collides
	for _, p := range append(append([]string{"LICENSE"}, c08Docs...), c08NonModule...) {
		g.take(p)
	}
	maxMods := 4
	if thorough {
		maxMods = 7
	}
	nm := 1 + r.IntN(maxMods)
	u := &c08Universe{}
	var exported [][]string // importable proto paths per module
	for i := 0; i < nm; i++ {
		m := &c08Mod{Other: map[string][]byte{}}
		maxProtos := 5
		if thorough {
			maxProtos = 12
		}
		np := 1 + r.IntN(maxProtos)
		nexp := (np + 1) / 2
		var exp []string
		for k := 0; k < np; k++ {
			imp := k < nexp
			p := &c08Proto{Path: g.protoPath(imp || r.IntN(2) == 0), Style: r.IntN(4), Payload: g.payload()}
			if r.IntN(3) > 0 {
				p.Pkg = fmt.Sprintf("m%d.p%d", i, r.IntN(3))
			}
			if !imp && r.IntN(10) == 0 {
				p.Style = 4
			}
			p.Decoy = r.IntN(6) == 0
			if imp && c08Importable(p.Path) {
				exp = append(exp, p.Path)
			}
			m.Protos = append(m.Protos, p)
		}
		// the first module sometimes ships a file at a well-known-type path (as
		// buf.build/protocolbuffers/wellknowntypes does): importing that path is then an ordinary
		// dependency on this module, not a built-in
		if i == 0 && r.IntN(5) == 0 && !g.used["google/protobuf/timestamp.proto"] {
			g.take("google/protobuf/timestamp.proto")
			m.Protos = append(m.Protos, &c08Proto{Path: "google/protobuf/timestamp.proto", Style: 0, Pkg: "google.protobuf", Payload: g.payload()})
		}
		exported = append(exported, exp)
		// intra-module imports (never a dependency), imports of well-known types (a dependency only if a module ships that path)
		for k, p := range m.Protos {
			if p.Style == 4 {
				continue
			}
			if k >= nexp && len(exp) > 0 && r.IntN(2) == 0 {
				p.Imports = append(p.Imports, exp[r.IntN(len(exp))])
			}
			if r.IntN(5) == 0 {
				p.Imports = append(p.Imports, "google/protobuf/timestamp.proto")
			}
		}
		// cross-module imports
		if i > 0 {
			ndeps := r.IntN(3)
			if r.IntN(4) == 0 {
				ndeps = i
			}
			for d := 0; d < ndeps; d++ {
				j := r.IntN(i)
				if len(exported[j]) == 0 {
					continue
				}
				var cands []*c08Proto
				for _, p := range m.Protos {
					if p.Style != 4 {
						cands = append(cands, p)
					}
				}
				if len(cands) == 0 {
					break
				}
				p := cands[r.IntN(len(cands))]
				target := exported[j][r.IntN(len(exported[j]))]
				dup := false
				for _, e := range p.Imports {
					dup = dup || e == target
				}
				if !dup {
					p.Imports = append(p.Imports, target)
				}
			}
		}
		// license, docs, non-module files
		if r.IntN(2) == 0 {
			m.Other["LICENSE"] = g.bytes("LICENSE")
		}
		for _, d := range c08Docs {
			if r.IntN(5) < 2 {
				m.Other[d] = g.bytes(d)
			}
		}
		nn := r.IntN(5)
		for k := 0; k < nn; k++ {
			p := c08NonModule[r.IntN(len(c08NonModule))]
			m.Other[p] = g.bytes(p)
		}
		u.Mods = append(u.Mods, m)
	}
	return u
}

// c08Features summarises a universe for the distinct-case key.
func c08Features(u *c08Universe) string {
	var f []string
	has := map[string]bool{}
	edges := 0
	for _, c := range u.closure() {
		edges += len(c)
	}
	for _, m := range u.Mods {
		docs := ""
		for _, d := range c08Docs {
			if _, ok := m.Other[d]; ok {
				docs += d[:1] + d[len(d)-2:]
			}
		}
		has["docs="+docs] = true
		if _, ok := m.Other["LICENSE"]; ok {
			has["lic"] = true
		}
		for p, d := range m.files() {
			if !model.IsModuleFile(m.files(), p) {
				has["nonmodule"] = true
				continue
			}
			if strings.Contains(p, "  ") {
				has["dblspace"] = true
			} else if strings.Contains(p, " ") {
				has["space"] = true
			}
			for _, r := range p {
				if r > 0x7f {
					has["unicode"] = true
				}
				if r < 0x20 {
					has["ctrl"] = true
				}
			}
			if len(d) == 0 {
				has["empty"] = true
			}
			if len(d) >= 100_000 {
				has["large"] = true
			}
			if strings.Count(p, "/") >= 3 {
				has["deep"] = true
			}
		}
	}
	for k := range has {
		f = append(f, k)
	}
	sort.Strings(f)
	return fmt.Sprintf("mods=%d depedges=%d %s", len(u.Mods), edges, strings.Join(f, ","))
}

// ---- the case ---------------------------------------------------------------------------------------

func c08Short(d string) string {
	if len(d) > 22 {
		return d[:22] + "…"
	}
	return d
}

func c08Run(c *core.C, idx int) {
	ctx := context.Background()
	dir := filepath.Join(c.Tmp, "c08")
	os.RemoveAll(dir)
	if err := os.MkdirAll(dir, 0o755); err != nil {
		c.Note("setup: %v", err)
		return
	}
	defer os.RemoveAll(dir)

	u := c08Generate(c.Rand, c.Thorough())
	want := u.modelB5()
	feat := c08Features(u)
	env := &c08Env{c: c, ctx: ctx, dir: dir}

	// reference presentation: every module local, memory buckets, everything targeted
	ref, err := env.digests(u, c08Backends[0], c08Frames[0])
	if err != nil {
		c.Violation("digest-error", "pres=mem/local-all-targets", fmt.Sprintf("reference presentation failed on an in-domain universe: %v\n%s", err, c08Describe(u)), nil)
		return
	}
	for i := range u.Mods {
		c.Eval(1)
		if ref.b5[i] != want[i] {
			c.Violation("b5-differs-from-construction", "pres=mem/local-all-targets",
				fmt.Sprintf("module %d: Module.Digest(b5)=%s, independent construction=%s\n%s", i, ref.b5[i], want[i], c08Describe(u)), nil)
		}
	}
	c.Count("modules_vs_model", len(u.Mods))

	// every backend once (random frame), every frame once (random backend)
	type pres struct {
		b c08Backend
		f c08Frame
	}
	var plist []pres
	for _, b := range c08Backends[1:] {
		plist = append(plist, pres{b, c08Frames[c.Rand.IntN(len(c08Frames))]})
	}
	for _, f := range c08Frames[1:] {
		plist = append(plist, pres{c08Backends[c.Rand.IntN(len(c08Backends))], f})
	}
	for _, p := range plist {
		name := p.b.name + "/" + p.f.name
		got, err := env.digests(u, p.b, p.f)
		c.Distinct("backend", p.b.name)
		c.Distinct("frame", p.f.name)
		if err != nil {
			c.Violation("digest-error", "pres="+name, fmt.Sprintf("presentation %s failed on an in-domain universe: %v\n%s", name, err, c08Describe(u)), nil)
			continue
		}
		for i := range u.Mods {
			c.Eval(2)
			if got.b5[i] != ref.b5[i] {
				c.Violation("digest-differs-across-presentations", "pres="+name+" type=b5",
					fmt.Sprintf("module %d: b5 %s under %s, %s under mem/local-all-targets (model %s)\n%s", i, got.b5[i], name, ref.b5[i], want[i], c08Describe(u)), nil)
			}
			if got.b4[i] != ref.b4[i] {
				c.Violation("digest-differs-across-presentations", "pres="+name+" type=b4",
					fmt.Sprintf("module %d: b4 %s under %s, %s under mem/local-all-targets\n%s", i, got.b4[i], name, ref.b4[i], c08Describe(u)), nil)
			}
		}
		c.Count("presentations_compared", 1)
		if got.cacheHits > 0 {
			c.Count("cache_hits", got.cacheHits)
		}
		if got.remote > 0 {
			c.Count("remote_module_digests", got.remote)
		}
	}

	// the universe as a buf workspace, loaded the way the CLI loads it
	c08Workspace(env, u, ref)

	// perturbations
	c08Perturbations(env, u, ref)

	// manifests of every module's complete file set and of hostile file sets
	c08Manifests(env, u)

	// remote modules with pinned dependency keys, tamper proofing
	c08Remote(env)

	c.Nontrivial(feat)
	c.Count("universes", 1)
	if idx < 3 {
		c.Sample(map[string]any{"universe": c08Describe(u), "b5": want})
	}
}

// c08Describe prints a universe compactly (paths, sizes, imports) for witnesses.
func c08Describe(u *c08Universe) string {
	var sb strings.Builder
	cl := u.closure()
	for i, m := range u.Mods {
		fmt.Fprintf(&sb, "module %d deps=%v:", i, cl[i])
		files := m.files()
		var ps []string
		for p := range files {
			ps = append(ps, p)
		}
		sort.Strings(ps)
		for _, p := range ps {
			tag := ""
			if !model.IsModuleFile(files, p) {
				tag = "(non-module)"
			}
			fmt.Fprintf(&sb, " %q[%dB]%s", p, len(files[p]), tag)
		}
		for _, p := range m.Protos {
			if len(p.Imports) > 0 {
				fmt.Fprintf(&sb, " {%q imports %q}", p.Path, p.Imports)
			}
		}
		sb.WriteString("\n")
		if sb.Len() > 3000 {
			sb.WriteString("…")
			break
		}
	}
	return sb.String()
}

func init() {
	core.Register(&core.Check{
		ID:    "C08",
		Level: "exploration",
		Rule: "PRNG-generated universes of 1..4 (thorough 1..7) modules: 1..5 (1..12) .proto files per module over a path alphabet with single/double/leading/trailing spaces, unicode, dots, quotes, tabs, CR, " +
			"directories named *.proto, base names '.proto'/'LICENSE.proto', depth ≤4 (≤9); LICENSE and each of buf.md/README.md/README.markdown independently present; 0..4 non-module files out of 24 look-alikes " +
			"(sub/LICENSE, X.PROTO, a.protox, buf.yaml, readme.md, …); contents empty/binary/100 kB..3 MB/text; cross-module imports form a random DAG (plus intra-module, well-known-type and commented-out decoy imports). " +
			"Per universe: b5 of every module vs the independent SHAKE256 construction over the graph model; b5/b4 equal across 11 storage backends (mem, mem-rw, disk, disk+symlinks, tar, zip, shuffled walk, reversed walk, prefix-mapped, " +
			"storage.Copy, CAS file-set round trip) × 9 frames (names, commit ids, targeting, path targeting, add order, remote via OmniProvider, remote via module cache dir/tar incl. cache hits, mixed local/remote, with/without non-module files); " +
			"≈20 single-file / single-path / dependency perturbations with the expected changed-set derived from the perturbation class; manifest text vs model and ParseManifest/ParseFileNode/Blob round trips on every file set and on hostile path sets; " +
			"remote modules with arbitrary bytes and arbitrary pinned dependency digests incl. tamper detection. A case is distinct/non-trivial per (module count, dependency-edge count, set of path/content/doc features present)",
		Assumptions: []string{
			"domain: every module has at least one .proto file and the .proto files of LOCAL modules are scannable (imports resolvable): a local module's b5 needs its import graph; arbitrary bytes in .proto files are exercised through remote modules (pinned dependency keys) and in LICENSE/doc/non-module files",
			"file sets are prefix-free (no path is a directory of another) and proto paths are unique across the modules of a universe",
			"paths starting with '._' are not generated (tar/zip readers skip Apple extended-attribute files by design)",
			"b4 (no v1 buf.yaml/buf.lock object data attached): invariance across presentations and sensitivity to the module's own files only; its value is not modelled",
			"SHAKE256 collisions are ignored (the model's digests are taken to differ whenever their inputs differ)",
			"the digest lines of buf.lock (dep update) are not observed: that needs a registry; the same Module.Digest feeds them",
		},
		Cases: func(tier string) int {
			if tier == "thorough" {
				return 4000 + c08ConcurrentCases(tier)
			}
			return 400 + c08ConcurrentCases(tier)
		},
		Run: func(c *core.C, idx int) {
			n := 400
			if c.Thorough() {
				n = 4000
			}
			if idx >= n {
				c08Concurrent(c, idx-n)
				return
			}
			c08Run(c, idx)
		},
		// the concurrency part once more under the race detector
		RaceCases: func(tier string) int {
			if tier == "thorough" {
				return 48
			}
			return 8
		},
		RunRace: c08Concurrent,
		Required: []string{"universes", "modules_vs_model", "presentations_compared", "cache_hits", "remote_module_digests",
			"perturb_module_file", "perturb_non_module", "perturb_dependency_only", "manifests_checked", "manifests_roundtripped",
			"remote_pinned_digests", "remote_b4_pinned_dependencies", "remote_tamper_detected", "workspace_presentations", "concurrent_digests"},
	})
}
