package checks

import (
	"context"
	"errors"
	"fmt"
	"sort"
	"strings"

	"github.com/bufbuild/buf/private/bufpkg/bufanalysis"
	"github.com/bufbuild/buf/private/bufpkg/bufcheck"
	"github.com/bufbuild/buf/private/bufpkg/bufconfig"
	"github.com/bufbuild/buf/private/bufpkg/bufimage"
	"github.com/bufbuild/buf/private/bufpkg/bufmodule"
	"github.com/bufbuild/buf/private/bufpkg/bufmodule/bufmoduletesting"
	"github.com/bufbuild/verifharness/gen"
)

// Shared plumbing of C05 and C06: running the real lint / breaking code in-process on a generated
// workspace, one image per module (the module's files are targets, every other module's files are
// imports — exactly what `buf lint` hands to bufcheck.Client.Lint for a workspace).

// lintAnn is one observed annotation, normalised to the module-relative path.
type lintAnn struct {
	Rule    string
	Path    string // module-relative ("" when the annotation has no file)
	Line    int
	Col     int
	EndLine int
	EndCol  int
	Msg     string
	Plugin  string
}

func (a lintAnn) key() string {
	return fmt.Sprintf("%s|%s|%d:%d-%d:%d|%s", a.Rule, a.Path, a.Line, a.Col, a.EndLine, a.EndCol, a.Msg)
}

func (a lintAnn) String() string {
	return fmt.Sprintf("%s:%d:%d:%s:%s", a.Path, a.Line, a.Col, a.Rule, a.Msg)
}

func annKeys(as []lintAnn) map[string]lintAnn {
	out := map[string]lintAnn{}
	for _, a := range as {
		out[a.key()] = a
	}
	return out
}

func sortedAnnStrings(as []lintAnn) []string {
	var out []string
	for _, a := range as {
		out = append(out, a.String())
	}
	sort.Strings(out)
	return out
}

// c05ExtraModule is a non-generated module added to the module set as a non-target (import-only)
// module, e.g. the vendored protovalidate definitions.
type c05ExtraModule struct {
	Name  string
	Files map[string]string
}

// c05ModuleImage builds the image in which module `target` of the workspace is targeted and all
// other modules are dependencies (target < 0: every module is targeted).
func c05ModuleImage(ctx context.Context, s *gen.Schema, r *gen.Rendered, target int, extra []c05ExtraModule) (bufimage.Image, error) {
	var datas []bufmoduletesting.ModuleData
	for i, m := range s.Modules {
		p2d := map[string][]byte{}
		for p, text := range r.Files[m.Dir] {
			p2d[p] = []byte(text)
		}
		datas = append(datas, bufmoduletesting.ModuleData{Name: m.Name, PathToData: p2d, NotTargeted: target >= 0 && i != target})
	}
	for _, x := range extra {
		p2d := map[string][]byte{}
		for p, text := range x.Files {
			p2d[p] = []byte(text)
		}
		datas = append(datas, bufmoduletesting.ModuleData{Name: x.Name, PathToData: p2d, NotTargeted: true})
	}
	ms, err := bufmoduletesting.NewModuleSet(datas...)
	if err != nil {
		return nil, fmt.Errorf("module set: %w", err)
	}
	image, err := bufimage.BuildImage(ctx, c09Logger, bufmodule.ModuleSetToModuleReadBucketWithOnlyProtoFiles(ms))
	if err != nil {
		return nil, fmt.Errorf("build: %w", err)
	}
	return image, nil
}

func c05FileAnnotations(err error) ([]lintAnn, error) {
	if err == nil {
		return nil, nil
	}
	var fas bufanalysis.FileAnnotationSet
	if !errors.As(err, &fas) {
		return nil, err
	}
	var out []lintAnn
	for _, fa := range fas.FileAnnotations() {
		a := lintAnn{Rule: fa.Type(), Line: fa.StartLine(), Col: fa.StartColumn(), EndLine: fa.EndLine(), EndCol: fa.EndColumn(), Msg: fa.Message(), Plugin: fa.PluginName()}
		if fi := fa.FileInfo(); fi != nil {
			a.Path = fi.Path()
		}
		out = append(out, a)
	}
	return out, nil
}

// c05LintOpts are the lint options that change rule behaviour.
type c05LintOpts struct {
	EnumZeroValueSuffix string
	ServiceSuffix       string
	AllowSameReqResp    bool
	AllowEmptyRequests  bool
	AllowEmptyResponses bool
	AllowCommentIgnores bool
}

func (o c05LintOpts) String() string {
	var p []string
	if o.EnumZeroValueSuffix != "" {
		p = append(p, "zero="+o.EnumZeroValueSuffix)
	}
	if o.ServiceSuffix != "" {
		p = append(p, "svc="+o.ServiceSuffix)
	}
	if o.AllowSameReqResp {
		p = append(p, "same")
	}
	if o.AllowEmptyRequests {
		p = append(p, "emptyreq")
	}
	if o.AllowEmptyResponses {
		p = append(p, "emptyresp")
	}
	if o.AllowCommentIgnores {
		p = append(p, "cignore")
	}
	if len(p) == 0 {
		return "-"
	}
	return strings.Join(p, "+")
}

// c05CheckCfg is a version-independent description of a lint / breaking configuration.
type c05CheckCfg struct {
	Version    string
	Use        []string
	Except     []string
	Ignore     []string            // module-relative paths
	IgnoreOnly map[string][]string // id -> module-relative paths
	Opts       c05LintOpts
	// breaking only
	IgnoreUnstable bool
}

func (c c05CheckCfg) checkConfig() (bufconfig.CheckConfig, error) {
	return bufconfig.NewEnabledCheckConfig(c06FileVersion(c.Version), c.Use, c.Except, c.Ignore, c.IgnoreOnly, false)
}

func (c c05CheckCfg) lintConfig() (bufconfig.LintConfig, error) {
	cc, err := c.checkConfig()
	if err != nil {
		return nil, err
	}
	o := c.Opts
	return bufconfig.NewLintConfig(cc, o.EnumZeroValueSuffix, o.AllowSameReqResp, o.AllowEmptyRequests, o.AllowEmptyResponses, o.ServiceSuffix, o.AllowCommentIgnores), nil
}

func (c c05CheckCfg) breakingConfig() (bufconfig.BreakingConfig, error) {
	cc, err := c.checkConfig()
	if err != nil {
		return nil, err
	}
	return bufconfig.NewBreakingConfig(cc, c.IgnoreUnstable), nil
}

// yamlList renders a YAML block list with the given indentation.
func yamlList(indent string, items []string) string {
	var sb strings.Builder
	for _, it := range items {
		sb.WriteString(indent + "- " + it + "\n")
	}
	return sb.String()
}

// lintYAML renders the body of the `lint:` section. pathPrefix is prepended to every ignore path
// (v2: paths are relative to buf.yaml, i.e. "<module dir>/"; v1: relative to the module, "").
func (c c05CheckCfg) lintYAML(pathPrefix string) string {
	var sb strings.Builder
	if len(c.Use) > 0 {
		sb.WriteString("use:\n" + yamlList("  ", c.Use))
	}
	if len(c.Except) > 0 {
		sb.WriteString("except:\n" + yamlList("  ", c.Except))
	}
	pre := func(ps []string) []string {
		var out []string
		for _, p := range ps {
			out = append(out, pathPrefix+p)
		}
		return out
	}
	if len(c.Ignore) > 0 {
		sb.WriteString("ignore:\n" + yamlList("  ", pre(c.Ignore)))
	}
	if len(c.IgnoreOnly) > 0 {
		sb.WriteString("ignore_only:\n")
		var ks []string
		for k := range c.IgnoreOnly {
			ks = append(ks, k)
		}
		sort.Strings(ks)
		for _, k := range ks {
			sb.WriteString("  " + k + ":\n" + yamlList("    ", pre(c.IgnoreOnly[k])))
		}
	}
	o := c.Opts
	if o.EnumZeroValueSuffix != "" {
		sb.WriteString("enum_zero_value_suffix: " + o.EnumZeroValueSuffix + "\n")
	}
	if o.ServiceSuffix != "" {
		sb.WriteString("service_suffix: " + o.ServiceSuffix + "\n")
	}
	if o.AllowSameReqResp {
		sb.WriteString("rpc_allow_same_request_response: true\n")
	}
	if o.AllowEmptyRequests {
		sb.WriteString("rpc_allow_google_protobuf_empty_requests: true\n")
	}
	if o.AllowEmptyResponses {
		sb.WriteString("rpc_allow_google_protobuf_empty_responses: true\n")
	}
	if c.Version == "v2" {
		if !o.AllowCommentIgnores {
			sb.WriteString("disallow_comment_ignores: true\n")
		}
	} else if o.AllowCommentIgnores {
		sb.WriteString("allow_comment_ignores: true\n")
	}
	return sb.String()
}

// c05Lint runs Client.Lint and returns the annotations (nil, err for a non-annotation error).
func c05Lint(ctx context.Context, client bufcheck.Client, cfg c05CheckCfg, image bufimage.Image, opts ...bufcheck.LintOption) ([]lintAnn, error) {
	lc, err := cfg.lintConfig()
	if err != nil {
		return nil, err
	}
	return c05FileAnnotations(client.Lint(ctx, lc, image, opts...))
}

func c05Breaking(ctx context.Context, client bufcheck.Client, cfg c05CheckCfg, image, against bufimage.Image, opts ...bufcheck.BreakingOption) ([]lintAnn, error) {
	bc, err := cfg.breakingConfig()
	if err != nil {
		return nil, err
	}
	return c05FileAnnotations(client.Breaking(ctx, bc, image, against, opts...))
}

// importOnlyPaths returns the paths of the image files that are imports.
func importOnlyPaths(image bufimage.Image) map[string]bool {
	out := map[string]bool{}
	for _, f := range image.Files() {
		if f.IsImport() {
			out[f.Path()] = true
		}
	}
	return out
}
