package checks

import (
	"fmt"
	"sort"
	"strings"

	"github.com/bufbuild/verifharness/model"
)

// Single-file / single-path / dependency perturbations. The set of modules whose digest must
// change is derived from the perturbation class and the graph model — not from the digest model:
//
//	module-file perturbation of module k:  b5 changes for k and for every module depending on k,
//	                                       b4 changes for k; every other module keeps b5 and b4
//	non-module perturbation of module k:   nothing changes anywhere
//
// In addition every perturbed universe is compared with the independent construction again.

type c08Perturb struct {
	kind   string
	module bool // true: touches a module file of module k; false: non-module perturbation
	// apply mutates the cloned universe; returns false when not applicable to this universe
	apply func(e *c08Env, u *c08Universe, k int) bool
}

func c08Leaf(u *c08Universe, k int) []*c08Proto {
	imported := map[string]bool{}
	for _, m := range u.Mods {
		for _, p := range m.Protos {
			for _, imp := range p.Imports {
				imported[imp] = true
			}
		}
	}
	var out []*c08Proto
	for _, p := range u.Mods[k].Protos {
		if !imported[p.Path] {
			out = append(out, p)
		}
	}
	return out
}

func c08ModuleOtherPaths(m *c08Mod, wantModule bool) []string {
	files := m.files()
	var out []string
	for p := range m.Other {
		if model.IsModuleFile(files, p) == wantModule {
			out = append(out, p)
		}
	}
	sort.Strings(out)
	return out
}

func c08FlipByte(e *c08Env, b []byte) []byte {
	out := append([]byte{}, b...)
	i := e.c.Rand.IntN(len(out))
	out[i] ^= 1 << uint(e.c.Rand.IntN(8))
	return out
}

func (e *c08Env) freshProtoPath(u *c08Universe) string {
	g := &c08Gen{r: e.c.Rand, thorough: e.c.Thorough(), used: map[string]bool{}, dirs: map[string]bool{}}
	for _, p := range append(append([]string{"LICENSE"}, c08Docs...), c08NonModule...) {
		g.take(p)
	}
	for _, m := range u.Mods {
		for p := range m.files() {
			g.take(p)
		}
	}
	return g.protoPath(e.c.Rand.IntN(2) == 0)
}

var c08Perturbs = []c08Perturb{
	// ---- module files: content ----
	{"flip-byte-in-proto", true, func(e *c08Env, u *c08Universe, k int) bool {
		var cands []*c08Proto
		for _, p := range u.Mods[k].Protos {
			if p.Style != 4 {
				cands = append(cands, p)
			}
		}
		if len(cands) == 0 {
			return false
		}
		p := cands[e.c.Rand.IntN(len(cands))]
		i := e.c.Rand.IntN(len(p.Payload))
		for p.Payload[i] >= 0x80 { // keep multi-byte characters intact
			i = e.c.Rand.IntN(len(p.Payload))
		}
		// stay inside the comment: replace by another payload letter
		for {
			nb := c08PayloadAlphabet[e.c.Rand.IntN(len(c08PayloadAlphabet))]
			if nb != p.Payload[i] {
				p.Payload[i] = nb
				return true
			}
		}
	}},
	{"append-byte-to-proto", true, func(e *c08Env, u *c08Universe, k int) bool {
		p := u.Mods[k].Protos[e.c.Rand.IntN(len(u.Mods[k].Protos))]
		if p.Style == 4 {
			p.Style = 3 // an empty file becomes a non-empty one
			p.Imports = nil
			return true
		}
		p.Payload = append(p.Payload, 'x')
		return true
	}},
	{"truncate-proto-to-empty", true, func(e *c08Env, u *c08Universe, k int) bool {
		for _, p := range c08Leaf(u, k) {
			if p.Style != 4 && len(p.Imports) == 0 {
				p.Style = 4
				return true
			}
		}
		return false
	}},
	{"flip-bit-in-license-or-doc", true, func(e *c08Env, u *c08Universe, k int) bool {
		m := u.Mods[k]
		var cands []string
		for _, p := range c08ModuleOtherPaths(m, true) {
			if len(m.Other[p]) > 0 {
				cands = append(cands, p)
			}
		}
		if len(cands) == 0 {
			return false
		}
		p := cands[e.c.Rand.IntN(len(cands))]
		m.Other[p] = c08FlipByte(e, m.Other[p])
		return true
	}},
	{"license-or-doc-empty<->one-byte", true, func(e *c08Env, u *c08Universe, k int) bool {
		m := u.Mods[k]
		cands := c08ModuleOtherPaths(m, true)
		if len(cands) == 0 {
			return false
		}
		p := cands[e.c.Rand.IntN(len(cands))]
		if len(m.Other[p]) == 0 {
			m.Other[p] = []byte{0}
		} else if len(m.Other[p]) == 1 {
			m.Other[p] = []byte{}
		} else {
			m.Other[p] = m.Other[p][:len(m.Other[p])-1]
		}
		return true
	}},
	{"swap-contents-of-two-module-files", true, func(e *c08Env, u *c08Universe, k int) bool {
		// same path set, same multiset of content digests, different pairing
		m := u.Mods[k]
		cands := c08ModuleOtherPaths(m, true)
		if len(cands) == 2 && string(m.Other[cands[0]]) != string(m.Other[cands[1]]) {
			m.Other[cands[0]], m.Other[cands[1]] = m.Other[cands[1]], m.Other[cands[0]]
			return true
		}
		leaf := c08Leaf(u, k)
		if len(leaf) >= 2 && leaf[0].Style != 4 && leaf[1].Style != 4 && string(leaf[0].render()) != string(leaf[1].render()) {
			leaf[0].Path, leaf[1].Path = leaf[1].Path, leaf[0].Path
			return true
		}
		return false
	}},
	// ---- module files: paths ----
	{"rename-proto", true, func(e *c08Env, u *c08Universe, k int) bool {
		leaf := c08Leaf(u, k)
		if len(leaf) == 0 {
			return false
		}
		p := leaf[e.c.Rand.IntN(len(leaf))]
		switch e.c.Rand.IntN(4) {
		case 0: // one character of the base name
			np := strings.TrimSuffix(p.Path, ".proto") + "_.proto"
			g := map[string]bool{}
			for _, m := range u.Mods {
				for q := range m.files() {
					g[q] = true
				}
			}
			if g[np] {
				np = e.freshProtoPath(u)
			}
			p.Path = np
		case 1: // a space more or less: "a b" vs "a  b"
			np := ""
			for i := 0; i < len(p.Path); i++ {
				if p.Path[i] == ' ' && np == "" {
					np = p.Path[:i] + " " + p.Path[i:]
				}
			}
			g := map[string]bool{}
			for _, m := range u.Mods {
				for q := range m.files() {
					g[q] = true
				}
			}
			if np == "" || g[np] {
				np = e.freshProtoPath(u)
			}
			p.Path = np
		default:
			p.Path = e.freshProtoPath(u)
		}
		return true
	}},
	{"add-proto", true, func(e *c08Env, u *c08Universe, k int) bool {
		style := e.c.Rand.IntN(5)
		u.Mods[k].Protos = append(u.Mods[k].Protos, &c08Proto{Path: e.freshProtoPath(u), Style: style, Payload: []byte("added")})
		return true
	}},
	{"remove-proto", true, func(e *c08Env, u *c08Universe, k int) bool {
		m := u.Mods[k]
		leaf := c08Leaf(u, k)
		if len(m.Protos) < 2 || len(leaf) == 0 {
			return false
		}
		victim := leaf[e.c.Rand.IntN(len(leaf))]
		var keep []*c08Proto
		for _, p := range m.Protos {
			if p != victim {
				keep = append(keep, p)
			}
		}
		m.Protos = keep
		return true
	}},
	{"add-license", true, func(e *c08Env, u *c08Universe, k int) bool {
		if _, ok := u.Mods[k].Other["LICENSE"]; ok {
			return false
		}
		if e.c.Rand.IntN(2) == 0 {
			u.Mods[k].Other["LICENSE"] = []byte{} // even an empty LICENSE is a module file
		} else {
			u.Mods[k].Other["LICENSE"] = []byte("MIT")
		}
		return true
	}},
	{"remove-license", true, func(e *c08Env, u *c08Universe, k int) bool {
		if _, ok := u.Mods[k].Other["LICENSE"]; !ok {
			return false
		}
		delete(u.Mods[k].Other, "LICENSE")
		return true
	}},
	{"move-license-to-non-module-name", true, func(e *c08Env, u *c08Universe, k int) bool {
		m := u.Mods[k]
		d, ok := m.Other["LICENSE"]
		if !ok {
			return false
		}
		for _, np := range []string{"LICENSE.txt", "sub/LICENSE", "License"} {
			if _, taken := m.Other[np]; !taken {
				delete(m.Other, "LICENSE")
				m.Other[np] = d
				return true
			}
		}
		return false
	}},
	{"add-first-doc", true, func(e *c08Env, u *c08Universe, k int) bool {
		m := u.Mods[k]
		for _, d := range c08Docs {
			if _, ok := m.Other[d]; ok {
				return false
			}
		}
		m.Other[c08Docs[e.c.Rand.IntN(3)]] = []byte("# doc")
		return true
	}},
	{"remove-chosen-doc", true, func(e *c08Env, u *c08Universe, k int) bool {
		// the next doc in precedence order (if any) becomes the module's doc file
		m := u.Mods[k]
		for _, d := range c08Docs {
			if _, ok := m.Other[d]; ok {
				delete(m.Other, d)
				return true
			}
		}
		return false
	}},
	{"add-higher-precedence-doc", true, func(e *c08Env, u *c08Universe, k int) bool {
		// README.md chosen, buf.md appears: buf.md replaces README.md in the module
		m := u.Mods[k]
		for i, d := range c08Docs {
			if _, ok := m.Other[d]; ok {
				if i == 0 {
					return false
				}
				m.Other[c08Docs[e.c.Rand.IntN(i)]] = append([]byte("higher "), m.Other[d]...)
				return true
			}
		}
		return false
	}},
	// ---- dependency edges ----
	{"add-import-of-another-module", true, func(e *c08Env, u *c08Universe, k int) bool {
		if k == 0 {
			return false
		}
		cl := u.closure()
		in := map[int]bool{}
		for _, j := range cl[k] {
			in[j] = true
		}
		for j := k - 1; j >= 0; j-- {
			if in[j] {
				continue
			}
			for _, q := range u.Mods[j].Protos {
				if !c08Importable(q.Path) {
					continue
				}
				for _, p := range u.Mods[k].Protos {
					if p.Style != 4 {
						p.Imports = append(p.Imports, q.Path)
						return true
					}
				}
			}
		}
		return false
	}},
	{"remove-import-of-another-module", true, func(e *c08Env, u *c08Universe, k int) bool {
		own := u.owner()
		for _, p := range u.Mods[k].Protos {
			if p.Style == 4 {
				continue
			}
			for i, imp := range p.Imports {
				if j, ok := own[imp]; ok && j != k {
					p.Imports = append(append([]string{}, p.Imports[:i]...), p.Imports[i+1:]...)
					return true
				}
			}
		}
		return false
	}},
	// ---- non-module perturbations ----
	{"add-non-module-file", false, func(e *c08Env, u *c08Universe, k int) bool {
		m := u.Mods[k]
		start := e.c.Rand.IntN(len(c08NonModule))
		for i := range c08NonModule {
			p := c08NonModule[(start+i)%len(c08NonModule)]
			if _, ok := m.Other[p]; !ok {
				m.Other[p] = []byte("added non-module file")
				return true
			}
		}
		return false
	}},
	{"remove-non-module-file", false, func(e *c08Env, u *c08Universe, k int) bool {
		m := u.Mods[k]
		cands := c08ModuleOtherPaths(m, false)
		if len(cands) == 0 {
			return false
		}
		delete(m.Other, cands[e.c.Rand.IntN(len(cands))])
		return true
	}},
	{"change-non-module-file", false, func(e *c08Env, u *c08Universe, k int) bool {
		m := u.Mods[k]
		cands := c08ModuleOtherPaths(m, false)
		if len(cands) == 0 {
			return false
		}
		p := cands[e.c.Rand.IntN(len(cands))]
		m.Other[p] = append(append([]byte{}, m.Other[p]...), []byte(" changed")...)
		return true
	}},
	{"add-lower-precedence-doc", false, func(e *c08Env, u *c08Universe, k int) bool {
		// buf.md chosen, README.md appears: not part of the module
		m := u.Mods[k]
		for i, d := range c08Docs {
			if _, ok := m.Other[d]; ok {
				for _, d2 := range c08Docs[i+1:] {
					if _, ok2 := m.Other[d2]; !ok2 {
						m.Other[d2] = []byte("lower precedence doc")
						return true
					}
				}
				return false
			}
		}
		return false
	}},
	{"change-or-remove-lower-precedence-doc", false, func(e *c08Env, u *c08Universe, k int) bool {
		m := u.Mods[k]
		chosen := false
		for _, d := range c08Docs {
			if _, ok := m.Other[d]; ok {
				if chosen {
					if e.c.Rand.IntN(2) == 0 {
						delete(m.Other, d)
					} else {
						m.Other[d] = c08FlipByte(e, append(m.Other[d], 'x'))
					}
					return true
				}
				chosen = true
			}
		}
		return false
	}},
}

func c08Perturbations(e *c08Env, u *c08Universe, ref *c08Digests) {
	c := e.c
	n := len(u.Mods)
	cheap := []c08Backend{c08Backends[0], c08Backends[1], c08Backends[6], c08Backends[8], c08Backends[4]}
	for _, pt := range c08Perturbs {
		// prefer a module other modules depend on every other time, so that the dependency clause is exercised
		k := c.Rand.IntN(n)
		if c.Rand.IntN(2) == 0 {
			for j := 0; j < n; j++ {
				if len(u.dependants(j)) > 0 {
					k = j
					break
				}
			}
		}
		pu := u.clone()
		if !pt.apply(e, pu, k) {
			c.Count("perturb_not_applicable", 1)
			continue
		}
		b := cheap[c.Rand.IntN(len(cheap))]
		f := c08Frames[0]
		if c.Rand.IntN(4) == 0 {
			f = c08Frames[[]int{1, 3, 8, 11}[c.Rand.IntN(4)]]
		}
		name := "perturb=" + pt.kind
		got, err := e.digests(pu, b, f)
		if err != nil {
			c.Violation("digest-error", name, fmt.Sprintf("perturbed universe (module %d, %s) failed under %s/%s: %v\nperturbed: %s", k, pt.kind, b.name, f.name, err, c08Describe(pu)), nil)
			continue
		}
		c.Distinct("perturbation", pt.kind)
		want := pu.modelB5()
		deps := pu.dependants(k)
		for j, d := range u.dependants(k) {
			if d {
				deps[j] = true
			}
		}
		for i := 0; i < n; i++ {
			c.Eval(2)
			role := "unrelated"
			expect5, expect4 := false, false
			if pt.module {
				switch {
				case i == k:
					role, expect5, expect4 = "self", true, true
				case deps[i]:
					role, expect5 = "dependant", true
				}
			} else if i == k {
				role = "self"
			} else if deps[i] {
				role = "dependant"
			}
			witness := func() string {
				return fmt.Sprintf("perturbation %s of module %d, observed on module %d (%s) under %s/%s: b5 %s -> %s, b4 %s -> %s\noriginal:  %sperturbed: %s",
					pt.kind, k, i, role, b.name, f.name, c08Short(ref.b5[i]), c08Short(got.b5[i]), c08Short(ref.b4[i]), c08Short(got.b4[i]), c08Describe(u), c08Describe(pu))
			}
			if got.b5[i] != want[i] {
				c.Violation("b5-differs-from-construction", name+" role="+role, "after "+witness()+"\nmodel b5 "+want[i], nil)
			}
			changed5, changed4 := got.b5[i] != ref.b5[i], got.b4[i] != ref.b4[i]
			if expect5 && !changed5 {
				c.Violation("digest-insensitive", name+" type=b5 role="+role, witness(), nil)
			}
			if !expect5 && changed5 {
				c.Violation("digest-oversensitive", name+" type=b5 role="+role, witness(), nil)
			}
			if expect4 && !changed4 {
				c.Violation("digest-insensitive", name+" type=b4 role="+role, witness(), nil)
			}
			if !expect4 && changed4 && role != "dependant" {
				c.Violation("digest-oversensitive", name+" type=b4 role="+role, witness(), nil)
			}
			if pt.module && role == "dependant" {
				c.Count("perturb_dependency_only", 1)
			}
			if role == "unrelated" {
				c.Count("perturb_unrelated_module_unchanged", 1)
			}
		}
		if pt.module {
			c.Count("perturb_module_file", 1)
		} else {
			c.Count("perturb_non_module", 1)
		}
	}
}
