package checks

import (
	"fmt"
	"math/rand/v2"
	"strings"

	"github.com/bufbuild/verifharness/gen"
)

// c03Enrich decorates a generated schema with the features the catalogue's operators need an element
// to have before they apply (required fields, defaults of every kind, ctype/jstype, aliased enum values,
// second oneofs, nested extensions, unreferenced nested types, tracked file options, idempotency
// levels, convertible files). Everything is added to the OLD version, i.e. it is part of S.
func c03Enrich(r *rand.Rand, s *gen.Schema) {
	x := c03Index(s)
	seq := 0
	next := func() int { seq++; return seq }
	for _, f := range s.AllFiles() {
		if isWKTCopy(f) {
			continue
		}
		// tracked file options
		for _, fo := range c03FileOptions {
			if _, ok := hasOpt(f.Options, fo.Name); !ok && r.IntN(4) == 0 {
				v := fo.Set
				if r.IntN(3) == 0 && fo.Change != fo.Default {
					v = fo.Change
				}
				f.Options = setOpt(f.Options, fo.Name, v)
			}
		}
		if (f.Syntax == "proto2" || f.Syntax == "") && r.IntN(3) == 0 {
			f.Options = setOpt(f.Options, "java_string_check_utf8", "true")
		}
		for _, sv := range f.Services {
			for _, m := range sv.Methods {
				if _, ok := hasOpt(m.Options, "idempotency_level"); !ok && r.IntN(3) == 0 {
					m.Options = setOpt(m.Options, "idempotency_level", []string{"NO_SIDE_EFFECTS", "IDEMPOTENT"}[r.IntN(2)])
				}
			}
		}
	}
	for _, m := range x.Msgs {
		if isWKTCopy(m.File) || m.Group {
			continue
		}
		syn := m.File.Syntax
		p2 := syn == "proto2" || syn == ""
		// unreferenced nested message and enum (deletable without touching anything else)
		if m.Depth < 2 && r.IntN(3) == 0 {
			name := fmt.Sprintf("Spare%d", next())
			m.M.Nested = append(m.M.Nested, &gen.Message{Name: name, Comment: name + " is spare.", OneofComments: map[string]string{},
				Fields: []*gen.Field{{Name: "spare_value", Number: 1, Kind: "scalar", Type: "string", Label: map[bool]string{true: "optional", false: ""}[p2], Comment: "Spare."}}})
		}
		if m.Depth < 2 && r.IntN(4) == 0 {
			name := fmt.Sprintf("SpareKind%d", next())
			pre := gen.UpperSnake(name) + "_"
			m.M.Enums = append(m.M.Enums, &gen.Enum{Name: name, Comment: name + " is spare.", Values: []*gen.EnumValue{
				{Name: pre + "UNSPECIFIED", Number: 0, Comment: "Zero."}, {Name: pre + "A", Number: 1, Comment: "A."}, {Name: pre + "B", Number: 2, Comment: "B."}}})
		}
		// a second oneof of new fields
		if r.IntN(5) == 0 {
			on := freshFieldName(fmt.Sprintf("extra_choice_%d", next()), m.M)
			for i := 0; i < 2; i++ {
				m.M.Fields = append(m.M.Fields, &gen.Field{Name: freshFieldName(fmt.Sprintf("extra_%d", next()), m.M), Number: freshFieldNumber(300+r.IntN(50), m.M),
					Kind: "scalar", Type: []string{"string", "int64", "bool", "bytes"}[r.IntN(4)], Oneof: on, Comment: "Extra."})
			}
			if m.M.OneofComments == nil {
				m.M.OneofComments = map[string]string{}
			}
			m.M.OneofComments[on] = "Extra choice."
		}
		if p2 && r.IntN(3) == 0 {
			m.M.Fields = append(m.M.Fields, &gen.Field{Name: freshFieldName("must_have", m.M), Number: freshFieldNumber(400+r.IntN(50), m.M), Label: "required",
				Kind: "scalar", Type: []string{"int32", "string", "bool"}[r.IntN(3)], Comment: "Required."})
		}
		if r.IntN(6) == 0 && len(m.M.ReservedRanges) == 0 {
			lo := freshFieldNumber(600+r.IntN(50), m.M)
			hi := lo
			for hi < lo+2+r.IntN(4) && msgNumberFree(m.M, hi+1) {
				hi++
			}
			m.M.ReservedRanges = append(m.M.ReservedRanges, gen.Range{Lo: lo, Hi: hi})
			m.M.ReservedNames = append(m.M.ReservedNames, fmt.Sprintf("retired_%d", next()))
		}
		for _, fl := range m.M.Fields {
			if fl.Kind == "group" || fl.Kind == "map" {
				continue
			}
			singular := fl.Label != "repeated"
			// defaults of every kind (proto2 / editions with explicit presence)
			if syn != "proto3" && singular && fl.Default == "" && r.IntN(4) == 0 {
				switch {
				case fl.Kind == "enum":
					if en := x.Enum(fl.Type); en != nil && len(en.E.Values) > 1 {
						fl.Default = en.E.Values[1+r.IntN(len(en.E.Values)-1)].Name
					}
				case fl.Kind == "scalar" && fl.Type == "bool":
					fl.Default = "true"
				case fl.Kind == "scalar" && (fl.Type == "string" || fl.Type == "bytes"):
					fl.Default = `"dflt"`
				case fl.Kind == "scalar" && (fl.Type == "float" || fl.Type == "double"):
					fl.Default = "1.5"
				case fl.Kind == "scalar":
					fl.Default = "42"
					if big := c03BigDefaults(fl.Type); len(big) > 0 && r.IntN(2) == 0 {
						fl.Default = big[r.IntN(len(big))][0]
					}
				}
			}
			if fl.Kind == "scalar" && (fl.Type == "string" || fl.Type == "bytes") && singular && r.IntN(4) == 0 {
				fl.Options = setOpt(fl.Options, "ctype", []string{"CORD", "STRING_PIECE", "CORD"}[r.IntN(3)])
			}
			if fl.Kind == "scalar" && is64(fl.Type) && r.IntN(4) == 0 {
				fl.Options = setOpt(fl.Options, "jstype", []string{"JS_STRING", "JS_NUMBER"}[r.IntN(2)])
			}
			if syn == "editions" && fl.Kind == "scalar" && fl.Type == "string" && r.IntN(4) == 0 {
				fl.Options = setOpt(fl.Options, "features.utf8_validation", "NONE")
			}
			if syn == "editions" && fl.Kind == "message" && !strings.HasPrefix(fl.Type, "google.protobuf.") && r.IntN(3) == 0 {
				// delimited (group-like) encoding of a message field
				fl.Options = setOpt(fl.Options, "features.message_encoding", "DELIMITED")
			}
			if fl.JSONName == "" && r.IntN(8) == 0 {
				fl.JSONName = "j" + gen.Pascal(fl.Name)
			}
		}
		// a message-nested extension of an extendable message of the same file
		if syn != "proto3" && r.IntN(3) == 0 {
			for _, t := range x.Msgs {
				if t.File == m.File && len(t.M.ExtRanges) > 0 && !t.Group {
					rg := t.M.ExtRanges[0]
					tag := rg.Hi - next()
					if tag < rg.Lo || extTagUsed(x, t.Full, tag) {
						break
					}
					label := "optional"
					if syn == "editions" {
						label = ""
					}
					ex := &gen.Extend{Extendee: t.Full, Fields: []*gen.Field{{Name: fmt.Sprintf("nested_ext_%d", next()), Number: tag, Label: label, Kind: "scalar", Type: "string", Comment: "A nested extension."}}}
					m.M.Extends = append(m.M.Extends, ex)
					x.Exts = append(x.Exts, &c03Ext{File: m.File, Parent: m, X: ex, F: ex.Fields[0]})
					break
				}
			}
		}
	}
	for _, en := range x.Enums {
		if isWKTCopy(en.File) {
			continue
		}
		// aliases of a non-zero value
		if len(en.E.Values) > 1 && r.IntN(3) == 0 {
			v := en.E.Values[1+r.IntN(len(en.E.Values)-1)]
			en.E.AllowAlias = true
			en.E.Values = append(en.E.Values, &gen.EnumValue{Name: v.Name + "_ALIAS", Number: v.Number, Comment: "Alias."})
			if r.IntN(2) == 0 {
				en.E.Values = append(en.E.Values, &gen.EnumValue{Name: v.Name + "_ALIAS2", Number: v.Number, Comment: "Alias."})
			}
		}
		if len(en.E.ReservedRanges) == 0 && r.IntN(5) == 0 {
			en.E.ReservedRanges = append(en.E.ReservedRanges, gen.Range{Lo: 900, Hi: 905})
			en.E.ReservedNames = append(en.E.ReservedNames, gen.UpperSnake(en.E.Name)+"_RETIRED")
		}
	}
	// plain files that can change syntax without further edits (no required, groups, defaults, extensions)
	if len(s.Modules) > 0 {
		mod := s.Modules[r.IntN(len(s.Modules))]
		for _, syn := range []string{"proto2", "proto3"} {
			if r.IntN(2) == 0 {
				continue
			}
			pkg := fmt.Sprintf("acme.plain%s.v1", syn)
			if s.FileByPath("acme/plain"+syn+"/v1/plain.proto") != nil {
				continue
			}
			lab := "optional"
			f := &gen.File{Path: "acme/plain" + syn + "/v1/plain.proto", Syntax: syn, Package: pkg,
				Enums: []*gen.Enum{{Name: "PlainKind", Comment: "Plain kind.", Values: []*gen.EnumValue{{Name: "PLAIN_KIND_UNSPECIFIED", Number: 0, Comment: "Zero."}, {Name: "PLAIN_KIND_ONE", Number: 1, Comment: "One."}}}},
				Messages: []*gen.Message{{Name: "Plain", Comment: "Plain.", OneofComments: map[string]string{}, Fields: []*gen.Field{
					{Name: "title", Number: 1, Label: lab, Kind: "scalar", Type: "string", Comment: "Title."},
					{Name: "kind", Number: 2, Label: lab, Kind: "enum", Type: pkg + ".PlainKind", Comment: "Kind."},
					{Name: "parts", Number: 3, Label: "repeated", Kind: "scalar", Type: "int32", Comment: "Parts."},
					{Name: "self", Number: 4, Label: map[string]string{"proto2": "optional", "proto3": ""}[syn], Kind: "message", Type: pkg + ".Plain", Comment: "Self."}}}}}
			mod.Files = append(mod.Files, f)
		}
	}
}

func extTagUsed(x *c03Idx, extendee string, tag int) bool {
	for _, ex := range x.Exts {
		if ex.X.Extendee == extendee && ex.F.Number == tag {
			return true
		}
	}
	return false
}
