package checks

import (
	"fmt"
	"math/rand/v2"
	"path"
	"regexp"
	"sort"
	"strings"

	"github.com/bufbuild/verifharness/gen"
)

// Model-level machinery shared by the lint plants (C05) and the dirty images of C06: an element
// walker with span keys, rename operators that keep every reference consistent, and a reference
// model of the file- and package-level lint rules (derived from the documented rule texts, not
// from the handlers).

// c05Expect is one expected annotation: rule × file × element (span key "kind:name", or "file" for
// an annotation about the file as a whole).
type c05Expect struct {
	Rule string
	File string
	Elem string
}

func (e c05Expect) String() string { return e.Rule + "@" + e.File + "#" + e.Elem }

// c05Ctx is the state a plant works on.
type c05Ctx struct {
	S       *gen.Schema
	Version string
	Table   *c06Table
	Rand    *rand.Rand
	Opts    c05LintOpts
	Extra   []c05ExtraModule
	n       int
}

func (x *c05Ctx) fresh() int { x.n++; return 100 + x.n }

func (x *c05Ctx) hasRule(id string) bool {
	r := x.Table.rule(id)
	return r != nil && r.Type == "lint"
}

// c05Elem is one declaration of the schema together with where it is.
type c05Elem struct {
	Kind    string // message enum enumvalue field oneof service rpc extension
	Mod     int
	FileIdx int // index of the file within its module
	File    *gen.File
	Depth   int
	Scope   string       // full name of the enclosing scope (package or message)
	Msg     *gen.Message // the message itself, or the message that contains the field/oneof/enum
	Enum    *gen.Enum
	Val     *gen.EnumValue
	ValIdx  int
	Field   *gen.Field
	Oneof   string
	Svc     *gen.Service
	Rpc     *gen.Method
	Ext     *gen.Extend
}

func joinName(scope, name string) string {
	if scope == "" {
		return name
	}
	return scope + "." + name
}

func (e *c05Elem) name() string {
	switch e.Kind {
	case "message":
		return e.Msg.Name
	case "enum":
		return e.Enum.Name
	case "enumvalue":
		return e.Val.Name
	case "field", "extension":
		return e.Field.Name
	case "oneof":
		return e.Oneof
	case "service":
		return e.Svc.Name
	case "rpc":
		return e.Rpc.Name
	}
	return ""
}

// key is the renderer's span key of the element (computed from its current names).
func (e *c05Elem) key() string {
	switch e.Kind {
	case "field", "extension", "oneof":
		// the renderer joins with "." unconditionally for these
		return e.Kind + ":" + e.Scope + "." + e.name()
	}
	return e.Kind + ":" + joinName(e.Scope, e.name())
}

func (e *c05Elem) desc() string {
	fc := "f0"
	if e.FileIdx > 0 {
		fc = "fN"
	}
	mc := "m0"
	if e.Mod > 0 {
		mc = "mN"
	}
	k := e.Kind
	if e.Kind == "field" && e.Field.Oneof != "" {
		k = "field-in-oneof"
	}
	if e.Kind == "field" && e.Field.Kind == "map" {
		k = "map-field"
	}
	return fmt.Sprintf("%s/d%d/%s%s/%s", k, e.Depth, mc, fc, e.File.Syntax)
}

// c05Walk visits every declaration of the schema in rendering order.
func c05Walk(s *gen.Schema, fn func(e *c05Elem)) {
	for mi, m := range s.Modules {
		for fi, f := range m.Files {
			base := c05Elem{Mod: mi, FileIdx: fi, File: f}
			var walkEnum func(scope string, depth int, parent *gen.Message, en *gen.Enum)
			walkEnum = func(scope string, depth int, parent *gen.Message, en *gen.Enum) {
				e := base
				e.Kind, e.Scope, e.Depth, e.Enum, e.Msg = "enum", scope, depth, en, parent
				fn(&e)
				for i, v := range en.Values {
					ve := base
					ve.Kind, ve.Scope, ve.Depth, ve.Enum, ve.Val, ve.ValIdx, ve.Msg = "enumvalue", joinName(scope, en.Name), depth+1, en, v, i, parent
					fn(&ve)
				}
			}
			var walkMsg func(scope string, depth int, m *gen.Message)
			walkExt := func(scope string, depth int, parent *gen.Message, x *gen.Extend) {
				for _, fl := range x.Fields {
					e := base
					e.Kind, e.Scope, e.Depth, e.Field, e.Ext, e.Msg = "extension", scope, depth, fl, x, parent
					fn(&e)
				}
			}
			walkMsg = func(scope string, depth int, m *gen.Message) {
				e := base
				e.Kind, e.Scope, e.Depth, e.Msg = "message", scope, depth, m
				fn(&e)
				full := joinName(scope, m.Name)
				for _, en := range m.Enums {
					walkEnum(full, depth+1, m, en)
				}
				for _, n := range m.Nested {
					walkMsg(full, depth+1, n)
				}
				seen := map[string]bool{}
				for _, fl := range m.Fields {
					if fl.Oneof != "" && !seen[fl.Oneof] {
						seen[fl.Oneof] = true
						oe := base
						oe.Kind, oe.Scope, oe.Depth, oe.Msg, oe.Oneof = "oneof", full, depth+1, m, fl.Oneof
						fn(&oe)
					}
					fe := base
					fe.Kind, fe.Scope, fe.Depth, fe.Msg, fe.Field = "field", full, depth+1, m, fl
					fn(&fe)
				}
				for _, x := range m.Extends {
					walkExt(full, depth+1, m, x)
				}
			}
			for _, en := range f.Enums {
				walkEnum(f.Package, 0, nil, en)
			}
			for _, m := range f.Messages {
				walkMsg(f.Package, 0, m)
			}
			for _, x := range f.Extends {
				walkExt(f.Package, 0, nil, x)
			}
			for _, sv := range f.Services {
				e := base
				e.Kind, e.Scope, e.Svc = "service", f.Package, sv
				fn(&e)
				for _, m := range sv.Methods {
					re := base
					re.Kind, re.Scope, re.Depth, re.Svc, re.Rpc = "rpc", joinName(f.Package, sv.Name), 1, sv, m
					fn(&re)
				}
			}
		}
	}
}

func c05Elems(s *gen.Schema, keep func(e *c05Elem) bool) []*c05Elem {
	var out []*c05Elem
	c05Walk(s, func(e *c05Elem) {
		if keep(e) {
			cp := *e
			out = append(out, &cp)
		}
	})
	return out
}

// ---- name helpers ----------------------------------------------------------------------

func lowerFirst(s string) string {
	if s == "" {
		return s
	}
	return strings.ToLower(s[:1]) + s[1:]
}

func snakeOf(pascal string) string { return strings.ToLower(gen.UpperSnake(pascal)) }

// ---- reference rewriting ---------------------------------------------------------------

func c05ForEachField(s *gen.Schema, fn func(fl *gen.Field)) {
	var walkM func(m *gen.Message)
	walkX := func(x *gen.Extend) {
		for _, fl := range x.Fields {
			fn(fl)
		}
	}
	walkM = func(m *gen.Message) {
		for _, fl := range m.Fields {
			fn(fl)
			if fl.Group != nil {
				walkM(fl.Group)
			}
		}
		for _, n := range m.Nested {
			walkM(n)
		}
		for _, x := range m.Extends {
			walkX(x)
		}
	}
	for _, f := range s.AllFiles() {
		for _, m := range f.Messages {
			walkM(m)
		}
		for _, x := range f.Extends {
			walkX(x)
		}
	}
}

func c05ForEachExtend(s *gen.Schema, fn func(x *gen.Extend)) {
	var walkM func(m *gen.Message)
	walkM = func(m *gen.Message) {
		for _, x := range m.Extends {
			fn(x)
		}
		for _, n := range m.Nested {
			walkM(n)
		}
	}
	for _, f := range s.AllFiles() {
		for _, m := range f.Messages {
			walkM(m)
		}
		for _, x := range f.Extends {
			fn(x)
		}
	}
}

// c05RenameType rewrites every reference to the type old (and to types nested in it).
func c05RenameType(s *gen.Schema, old, new string) {
	rw := func(t string) string {
		if t == old {
			return new
		}
		if strings.HasPrefix(t, old+".") {
			return new + strings.TrimPrefix(t, old)
		}
		return t
	}
	c05ForEachField(s, func(fl *gen.Field) {
		fl.Type = rw(fl.Type)
		fl.MapVal = rw(fl.MapVal)
	})
	c05ForEachExtend(s, func(x *gen.Extend) { x.Extendee = rw(x.Extendee) })
	for _, f := range s.AllFiles() {
		for _, sv := range f.Services {
			for _, m := range sv.Methods {
				m.In, m.Out = rw(m.In), rw(m.Out)
			}
		}
	}
}

func c05ForEachOpts(s *gen.Schema, fn func(opts []gen.Opt)) {
	var walkM func(m *gen.Message)
	walkE := func(e *gen.Enum) {
		fn(e.Options)
		for _, v := range e.Values {
			fn(v.Options)
		}
	}
	walkM = func(m *gen.Message) {
		fn(m.Options)
		for _, fl := range m.Fields {
			fn(fl.Options)
		}
		for _, n := range m.Nested {
			walkM(n)
		}
		for _, e := range m.Enums {
			walkE(e)
		}
		for _, x := range m.Extends {
			for _, fl := range x.Fields {
				fn(fl.Options)
			}
		}
	}
	for _, f := range s.AllFiles() {
		fn(f.Options)
		for _, m := range f.Messages {
			walkM(m)
		}
		for _, e := range f.Enums {
			walkE(e)
		}
		for _, x := range f.Extends {
			for _, fl := range x.Fields {
				fn(fl.Options)
			}
		}
		for _, sv := range f.Services {
			fn(sv.Options)
			for _, m := range sv.Methods {
				fn(m.Options)
			}
		}
	}
}

// c05MoveFile changes a file's path and keeps explicit import lists consistent.
func c05MoveFile(s *gen.Schema, f *gen.File, newPath string) {
	old := f.Path
	f.Path = newPath
	for _, g := range s.AllFiles() {
		for i := range g.ExtraImports {
			if g.ExtraImports[i].Path == old {
				g.ExtraImports[i].Path = newPath
			}
		}
		for i := range g.PublicImports {
			if g.PublicImports[i] == old {
				g.PublicImports[i] = newPath
			}
		}
		for i := range g.WeakImports {
			if g.WeakImports[i] == old {
				g.WeakImports[i] = newPath
			}
		}
		if c, ok := g.ImportComments[old]; ok {
			delete(g.ImportComments, old)
			g.ImportComments[newPath] = c
		}
	}
}

// c05RenamePackage renames a package in every file that declares it, rewrites all type and custom
// option references, and (moveDir) moves the files to the directory matching the new name.
func c05RenamePackage(s *gen.Schema, old, new string, moveDir bool) {
	var files []*gen.File
	for _, f := range s.AllFiles() {
		if f.Package == old {
			files = append(files, f)
		}
	}
	oldP, newP := old+".", new+"."
	if old == "" {
		return
	}
	if new == "" {
		newP = ""
	}
	// only names declared by these files are rewritten (a longer package may share the prefix)
	idx := s.TypeIndex()
	declared := map[string]bool{}
	for name, ti := range idx {
		if ti.File.Package == old {
			declared[name] = true
		}
	}
	rw := func(t string) string {
		if declared[t] {
			return newP + strings.TrimPrefix(t, oldP)
		}
		return t
	}
	extDeclared := map[string]bool{}
	for name, ef := range s.ExtIndex() {
		if ef.Package == old {
			extDeclared[name] = true
		}
	}
	c05ForEachField(s, func(fl *gen.Field) {
		fl.Type = rw(fl.Type)
		fl.MapVal = rw(fl.MapVal)
	})
	c05ForEachExtend(s, func(x *gen.Extend) { x.Extendee = rw(x.Extendee) })
	for _, f := range s.AllFiles() {
		for _, sv := range f.Services {
			for _, m := range sv.Methods {
				m.In, m.Out = rw(m.In), rw(m.Out)
			}
		}
	}
	c05ForEachOpts(s, func(opts []gen.Opt) {
		for i := range opts {
			if strings.HasPrefix(opts[i].Name, "(") {
				end := strings.Index(opts[i].Name, ")")
				if end > 0 && extDeclared[opts[i].Name[1:end]] {
					opts[i].Name = "(" + newP + strings.TrimPrefix(opts[i].Name[1:end], oldP) + opts[i].Name[end:]
				}
			}
		}
	})
	for _, f := range files {
		f.Package = new
		if moveDir {
			dir := strings.ReplaceAll(new, ".", "/")
			c05MoveFile(s, f, path.Join(dir, path.Base(f.Path)))
		}
	}
}

// ---- versions of packages (documented form: the last component is v<major>[alpha|beta|test…]) ---

var (
	reStableVersion   = regexp.MustCompile(`^v[1-9][0-9]*$`)
	reUnstableVersion = regexp.MustCompile(`^v[1-9][0-9]*(alpha|beta)[1-9][0-9]*$|^v[1-9][0-9]*p[1-9][0-9]*(alpha|beta)[1-9][0-9]*$|^v[1-9][0-9]*test.*$`)
)

// pkgStability: "stable", "unstable", or "" (no well-formed version suffix).
func pkgStability(pkg string) string {
	i := strings.LastIndex(pkg, ".")
	if i < 0 {
		return ""
	}
	last := pkg[i+1:]
	switch {
	case reStableVersion.MatchString(last):
		return "stable"
	case reUnstableVersion.MatchString(last):
		return "unstable"
	}
	return ""
}

// ---- reference model of the file- and package-level rules ---------------------------------

var c05SameOptionRules = map[string]string{
	"PACKAGE_SAME_CSHARP_NAMESPACE":    "csharp_namespace",
	"PACKAGE_SAME_GO_PACKAGE":          "go_package",
	"PACKAGE_SAME_JAVA_MULTIPLE_FILES": "java_multiple_files",
	"PACKAGE_SAME_JAVA_PACKAGE":        "java_package",
	"PACKAGE_SAME_PHP_NAMESPACE":       "php_namespace",
	"PACKAGE_SAME_RUBY_PACKAGE":        "ruby_package",
	"PACKAGE_SAME_SWIFT_PREFIX":        "swift_prefix",
}

func c05PkgElem(f *gen.File) string {
	if f.Package == "" {
		return "file"
	}
	return "package:" + f.Path
}

func c05FileOpt(f *gen.File, name string) (string, bool) {
	for _, o := range f.Options {
		if o.Name == name {
			return o.Value, true
		}
	}
	return "", false
}

// c05GlobalExpect computes, for the module `mod` being linted (its files are the targets, all
// other files of the workspace are imports), what the rules about files, directories, packages and
// the import graph must report:
//
//	PACKAGE_DEFINED            a file has no package
//	PACKAGE_DIRECTORY_MATCH    a file's directory is not its package with dots as slashes
//	PACKAGE_SAME_DIRECTORY     the files of one package are in more than one directory (all of them)
//	DIRECTORY_SAME_PACKAGE     the files of one directory declare more than one package (all of them)
//	PACKAGE_SAME_<OPTION>      the files of one package disagree on a file option (all of them)
//	PACKAGE_NO_IMPORT_CYCLE    an import statement whose package edge lies on a package cycle
//	STABLE_PACKAGE_NO_IMPORT_UNSTABLE  an import of a file of an unstable package from a stable one
func c05GlobalExpect(s *gen.Schema, mod int, has func(rule string) bool) []c05Expect {
	var out []c05Expect
	files := s.Modules[mod].Files
	add := func(rule, file, elem string) {
		if has(rule) {
			out = append(out, c05Expect{rule, file, elem})
		}
	}
	byPkg, byDir := map[string][]*gen.File{}, map[string][]*gen.File{}
	for _, f := range files {
		if f.Package == "" {
			add("PACKAGE_DEFINED", f.Path, "file")
		} else if path.Dir(f.Path) != strings.ReplaceAll(f.Package, ".", "/") {
			add("PACKAGE_DIRECTORY_MATCH", f.Path, c05PkgElem(f))
		}
		byPkg[f.Package] = append(byPkg[f.Package], f)
		byDir[path.Dir(f.Path)] = append(byDir[path.Dir(f.Path)], f)
	}
	for _, fs := range byPkg {
		dirs := map[string]bool{}
		for _, f := range fs {
			dirs[path.Dir(f.Path)] = true
		}
		if len(dirs) > 1 {
			for _, f := range fs {
				add("PACKAGE_SAME_DIRECTORY", f.Path, c05PkgElem(f))
			}
		}
		for rule, opt := range c05SameOptionRules {
			vals := map[string]bool{}
			for _, f := range fs {
				v, ok := c05FileOpt(f, opt)
				if !ok {
					v = "\x00unset"
				}
				vals[v] = true
			}
			if len(vals) > 1 {
				for _, f := range fs {
					if _, ok := c05FileOpt(f, opt); ok {
						add(rule, f.Path, "option:"+f.Path+":"+opt)
					} else {
						add(rule, f.Path, "file")
					}
				}
			}
		}
	}
	for _, fs := range byDir {
		pkgs := map[string]bool{}
		for _, f := range fs {
			pkgs[f.Package] = true
		}
		if len(pkgs) > 1 {
			for _, f := range fs {
				add("DIRECTORY_SAME_PACKAGE", f.Path, c05PkgElem(f))
			}
		}
	}
	// package graph over every file of the workspace (imports included)
	pkgOf := map[string]string{}
	for _, f := range s.AllFiles() {
		pkgOf[f.Path] = f.Package
	}
	edges := map[string]map[string]bool{}
	for _, f := range s.AllFiles() {
		for _, im := range s.ImportsOf(f) {
			q, ok := pkgOf[im.Path]
			if !ok || q == f.Package || q == "" || f.Package == "" {
				continue
			}
			if edges[f.Package] == nil {
				edges[f.Package] = map[string]bool{}
			}
			edges[f.Package][q] = true
		}
	}
	reach := func(from, to string) bool {
		seen := map[string]bool{}
		var dfs func(p string) bool
		dfs = func(p string) bool {
			if p == to {
				return true
			}
			if seen[p] {
				return false
			}
			seen[p] = true
			for q := range edges[p] {
				if dfs(q) {
					return true
				}
			}
			return false
		}
		return dfs(from)
	}
	for _, f := range files {
		for _, im := range s.ImportsOf(f) {
			q, ok := pkgOf[im.Path]
			if !ok {
				continue
			}
			elem := "import:" + f.Path + ":" + im.Path
			if f.Package != "" && q != "" && q != f.Package && reach(q, f.Package) {
				add("PACKAGE_NO_IMPORT_CYCLE", f.Path, elem)
			}
			if pkgStability(f.Package) == "stable" && pkgStability(q) == "unstable" {
				add("STABLE_PACKAGE_NO_IMPORT_UNSTABLE", f.Path, elem)
			}
		}
	}
	sort.Slice(out, func(i, j int) bool { return out[i].String() < out[j].String() })
	return out
}

// c05ElemAt resolves an annotation position to the innermost generated declaration whose span
// contains it; "file" when the annotation has no position or lies outside every declaration.
func c05ElemAt(r *gen.Rendered, file string, line int) string {
	if line <= 0 {
		return "file"
	}
	sp := r.Innermost(file, line)
	if sp == nil {
		return "file"
	}
	return sp.Kind + ":" + sp.Name
}
