package checks

import (
	"context"
	"fmt"
	"os"
	"runtime/pprof"
	"strconv"
	"time"

	"github.com/bufbuild/verifharness/core"
	"github.com/bufbuild/verifharness/gen"
)

// c05probe: development aid — builds per-module images of generated workspaces in-process and
// lints them with every rule of every config version; prints what is reported and the timings.
func init() {
	core.RegisterHelper("c05probe", func(args []string) int {
		n := 5
		if len(args) > 0 {
			n, _ = strconv.Atoi(args[0])
		}
		ctx := context.Background()
		client, err := c06NewClient()
		if err != nil {
			fmt.Println(err)
			return 1
		}
		var tBuild, tLint time.Duration
		nb, nl := 0, 0
		for i := 0; i < n; i++ {
			r := core.RandFor(1, "c05probe", i, "x")
			cfg := gen.DefaultConfig()
			cfg.Modules = 1 + r.IntN(3)
			s := gen.Generate(r, cfg)
			rd := s.Render()
			for mi := range s.Modules {
				t0 := time.Now()
				image, err := c05ModuleImage(ctx, s, rd, mi, nil)
				tBuild += time.Since(t0)
				nb++
				if err != nil {
					fmt.Printf("case %d module %d: %v\n", i, mi, err)
					continue
				}
				for _, v := range c06Versions {
					t, _ := c06LoadTable(v)
					var all []string
					for _, rl := range t.rulesOfType("lint") {
						if !rl.Deprecated {
							all = append(all, rl.ID)
						}
					}
					if len(args) > 1 {
						all = []string{args[1]}
					}
					if len(args) > 2 {
						var na []string
						for _, x := range all {
							if x != args[2] {
								na = append(na, x)
							}
						}
						all = na
					}
					t1 := time.Now()
					anns, err := c05Lint(ctx, client, c05CheckCfg{Version: v, Use: all}, image)
					tLint += time.Since(t1)
					nl++
					if err != nil {
						fmt.Printf("case %d module %d %s: error %v\n", i, mi, v, err)
					}
					for _, a := range anns {
						fmt.Printf("case %d module %d %s: %s\n", i, mi, v, a)
					}
				}
			}
		}
		fmt.Printf("builds=%d avg=%v lints=%d avg=%v\n", nb, tBuild/time.Duration(max(nb, 1)), nl, tLint/time.Duration(max(nl, 1)))
		return 0
	})
}

func init() {
	// c05profile <check> <case> <file>: CPU profile of one case (development aid)
	core.RegisterHelper("c05profile", func(args []string) int {
		idx, _ := strconv.Atoi(args[1])
		f, err := os.Create(args[2])
		if err != nil {
			return 1
		}
		defer f.Close()
		tmp, _ := os.MkdirTemp("", "c05profile-")
		defer os.RemoveAll(tmp)
		c := core.NewDetachedC(args[0], 1, idx)
		c.Tmp = tmp
		pprof.StartCPUProfile(f)
		t0 := time.Now()
		core.Lookup(args[0]).Run(c, idx)
		pprof.StopCPUProfile()
		fmt.Println("elapsed", time.Since(t0))
		return 0
	})
}
