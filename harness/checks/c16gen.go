package checks

import (
	"encoding/json"
	"fmt"
	"math/rand/v2"
	"sort"
	"strings"

	"gopkg.in/yaml.v3"
)

// C16 document generator: random configuration documents of the four file types, valid by
// construction for the most part (the reader decides; rejected documents are outside the
// quantified domain and only counted).

type c16Doc struct {
	Kind     string // buf.yaml | buf.lock | buf.gen.yaml | buf.work.yaml
	Version  string // v1beta1 | v1 | v2 | "" (buf.lock without version)
	Text     []byte
	JSON     bool
	Features map[string]bool
}

func (d *c16Doc) feat(f string) { d.Features[f] = true }

func (d *c16Doc) featureList() []string {
	var out []string
	for f := range d.Features {
		out = append(out, f)
	}
	sort.Strings(out)
	return out
}

type c16Gen struct {
	r   *rand.Rand
	doc *c16Doc
	big bool // thorough tier: larger documents
}

func (g *c16Gen) chance(num, den int) bool { return g.r.IntN(den) < num }
func (g *c16Gen) pick(xs []string) string  { return xs[g.r.IntN(len(xs))] }

// subset returns between lo and hi distinct elements of xs in random order.
func (g *c16Gen) subset(xs []string, lo, hi int) []string {
	if hi > len(xs) {
		hi = len(xs)
	}
	if lo > hi {
		lo = hi
	}
	n := lo
	if hi > lo {
		n += g.r.IntN(hi - lo + 1)
	}
	perm := g.r.Perm(len(xs))
	out := make([]string, 0, n)
	for _, i := range perm[:n] {
		out = append(out, xs[i])
	}
	return out
}

// spell returns a random spelling of a normalized relative path that normalizes back to it.
func (g *c16Gen) spell(p string) string {
	if !g.chance(1, 4) {
		return p
	}
	g.doc.feat("path-spelling")
	if p == "." {
		return g.pick([]string{".", "./", "./.", "x/.."})
	}
	switch g.r.IntN(5) {
	case 0:
		return "./" + p
	case 1:
		return p + "/"
	case 2:
		return strings.Replace(p, "/", "//", 1)
	case 3:
		return p + "/."
	default:
		parts := strings.Split(p, "/")
		return parts[0] + "/../" + p
	}
}

func (g *c16Gen) spellAll(ps []string) []any {
	out := make([]any, len(ps))
	for i, p := range ps {
		out[i] = g.spell(p)
	}
	return out
}

func strs(xs []string) []any {
	out := make([]any, len(xs))
	for i, x := range xs {
		out[i] = x
	}
	return out
}

func c16Join(base, rel string) string {
	if base == "." || base == "" {
		return rel
	}
	if rel == "." {
		return base
	}
	return base + "/" + rel
}

// --- id pools -----------------------------------------------------------------------------

var c16LintIDs = map[string][]string{
	"v1beta1": {"MINIMAL", "BASIC", "DEFAULT", "STANDARD", "COMMENTS", "UNARY_RPC", "OTHER", "FILE_LAYOUT", "PACKAGE_AFFINITY", "SENSIBLE", "STYLE_BASIC", "STYLE_DEFAULT",
		"FIELD_NO_DESCRIPTOR", "ENUM_FIRST_VALUE_ZERO", "FIELD_LOWER_SNAKE_CASE", "ENUM_ZERO_VALUE_SUFFIX", "SERVICE_SUFFIX", "COMMENT_FIELD", "PACKAGE_VERSION_SUFFIX", "RPC_REQUEST_STANDARD_NAME"},
	"v1": {"MINIMAL", "BASIC", "DEFAULT", "STANDARD", "COMMENTS", "UNARY_RPC", "FIELD_LOWER_SNAKE_CASE", "ENUM_ZERO_VALUE_SUFFIX", "ENUM_VALUE_PREFIX", "SERVICE_SUFFIX", "COMMENT_FIELD", "COMMENT_MESSAGE",
		"PACKAGE_VERSION_SUFFIX", "RPC_REQUEST_STANDARD_NAME", "RPC_RESPONSE_STANDARD_NAME", "PACKAGE_NO_IMPORT_CYCLE", "IMPORT_USED", "PROTOVALIDATE", "IMPORT_NO_WEAK", "SYNTAX_SPECIFIED"},
	"v2": {"MINIMAL", "BASIC", "DEFAULT", "STANDARD", "COMMENTS", "UNARY_RPC", "FIELD_LOWER_SNAKE_CASE", "FIELD_NOT_REQUIRED", "ENUM_ZERO_VALUE_SUFFIX", "ENUM_VALUE_PREFIX", "SERVICE_SUFFIX", "COMMENT_FIELD",
		"COMMENT_MESSAGE", "PACKAGE_VERSION_SUFFIX", "RPC_REQUEST_STANDARD_NAME", "PACKAGE_NO_IMPORT_CYCLE", "STABLE_PACKAGE_NO_IMPORT_UNSTABLE", "IMPORT_NO_WEAK", "PLUGIN_RULE_X", "ACME_CATEGORY"},
}

var c16BreakingIDs = map[string][]string{
	"v1beta1": {"FILE", "PACKAGE", "WIRE_JSON", "WIRE", "FIELD_NO_DELETE", "FIELD_SAME_TYPE", "FIELD_SAME_CARDINALITY", "FILE_SAME_PACKAGE", "ENUM_VALUE_NO_DELETE", "RPC_NO_DELETE", "FIELD_SAME_CTYPE", "FIELD_SAME_LABEL",
		"FILE_SAME_JAVA_STRING_CHECK_UTF8", "FILE_SAME_PHP_GENERIC_SERVICES"},
	"v1": {"FILE", "PACKAGE", "WIRE_JSON", "WIRE", "FIELD_NO_DELETE", "FIELD_SAME_TYPE", "FIELD_SAME_CARDINALITY", "FIELD_SAME_NAME", "FIELD_SAME_JSON_NAME", "ENUM_VALUE_NO_DELETE", "RPC_NO_DELETE", "FILE_NO_DELETE",
		"FIELD_SAME_CTYPE", "FIELD_SAME_LABEL", "FILE_SAME_JAVA_STRING_CHECK_UTF8", "FILE_SAME_PHP_GENERIC_SERVICES", "MESSAGE_SAME_MESSAGE_SET_WIRE_FORMAT", "FIELD_WIRE_COMPATIBLE_TYPE"},
	"v2": {"FILE", "PACKAGE", "WIRE_JSON", "WIRE", "FIELD_NO_DELETE", "FIELD_SAME_TYPE", "FIELD_SAME_CARDINALITY", "FIELD_SAME_DEFAULT", "EXTENSION_NO_DELETE", "PACKAGE_EXTENSION_NO_DELETE", "FIELD_SAME_NAME",
		"ENUM_VALUE_NO_DELETE", "FIELD_SAME_CTYPE", "FIELD_SAME_LABEL", "FILE_SAME_JAVA_STRING_CHECK_UTF8", "FILE_SAME_PHP_GENERIC_SERVICES", "PLUGIN_BREAKING_Y"},
}

var c16Deprecated = map[string]bool{"DEFAULT": true, "STYLE_DEFAULT": true, "FIELD_SAME_CTYPE": true, "FIELD_SAME_LABEL": true, "FILE_SAME_JAVA_STRING_CHECK_UTF8": true,
	"FILE_SAME_PHP_GENERIC_SERVICES": true, "MESSAGE_SAME_MESSAGE_SET_WIRE_FORMAT": true, "IMPORT_NO_WEAK": true}

// relative sub-paths used for ignore lists, includes and excludes (no one nested in another
// within one of the groups)
var c16SubPaths = [][]string{
	{"acme/a", "acme/b/v1", "acme/b/v2", "google", "x.proto", "acme/c/c.proto", "third party/x"},
	{"foo", "bar/baz", "bar/qux", "zed/a/b/c", "bar/top.proto"},
}

// nonNested returns up to n mutually non-nested relative paths.
func (g *c16Gen) nonNested(lo, hi int) []string {
	return g.subset(c16SubPaths[g.r.IntN(len(c16SubPaths))], lo, hi)
}

// checkSection builds a lint or breaking section. base is the directory the paths must live in
// ("." for v1/v1beta1 and for v2 top-level sections); disableFor lists directories that are to be
// named themselves in `ignore` (switching the checks of the module at that directory off).
func (g *c16Gen) checkSection(kind, version, base string, disableFor []string, extraIgnore []string) map[string]any {
	sec := map[string]any{}
	ids := c16LintIDs[version]
	if kind == "breaking" {
		ids = c16BreakingIDs[version]
	}
	markDeprecated := func(xs []string) {
		for _, x := range xs {
			if c16Deprecated[x] {
				g.doc.feat(kind + "-deprecated-id")
			}
		}
	}
	if g.chance(3, 5) {
		use := g.subset(ids, 1, 4)
		if g.chance(1, 6) {
			use = append(use, use[0]) // duplicate id: readers de-duplicate
			g.doc.feat("duplicate-id")
		}
		markDeprecated(use)
		sec["use"] = strs(use)
	}
	if g.chance(2, 5) {
		ex := g.subset(ids, 1, 3)
		markDeprecated(ex)
		sec["except"] = strs(ex)
	}
	var ignore []string
	if g.chance(2, 5) {
		for _, p := range g.nonNested(1, 3) {
			ignore = append(ignore, c16Join(base, p))
		}
		g.doc.feat(kind + "-ignore")
	}
	ignore = append(ignore, extraIgnore...)
	for _, d := range disableFor {
		ignore = append(ignore, d)
		g.doc.feat(kind + "-disabled")
	}
	if len(ignore) > 0 {
		g.r.Shuffle(len(ignore), func(i, j int) { ignore[i], ignore[j] = ignore[j], ignore[i] })
		sec["ignore"] = g.spellAll(ignore)
	}
	if g.chance(2, 5) {
		io := map[string]any{}
		for _, id := range g.subset(ids, 1, 3) {
			var ps []string
			for _, p := range g.nonNested(1, 3) {
				ps = append(ps, c16Join(base, p))
			}
			io[id] = g.spellAll(ps)
			markDeprecated([]string{id})
		}
		sec["ignore_only"] = io
		g.doc.feat(kind + "-ignore_only")
	}
	if g.chance(1, 8) && version != "v1beta1" {
		sec["disable_builtin"] = true
		g.doc.feat("disable_builtin")
	}
	if kind == "lint" {
		if g.chance(1, 4) {
			sec["enum_zero_value_suffix"] = g.pick([]string{"_NONE", "_UNKNOWN", "_ZERO"})
		}
		if g.chance(1, 4) {
			sec["service_suffix"] = g.pick([]string{"API", "Svc"})
		}
		for _, k := range []string{"rpc_allow_same_request_response", "rpc_allow_google_protobuf_empty_requests", "rpc_allow_google_protobuf_empty_responses"} {
			if g.chance(1, 5) {
				sec[k] = g.chance(3, 4)
			}
		}
		if version == "v2" {
			if g.chance(1, 3) {
				sec["disallow_comment_ignores"] = g.chance(3, 4)
				g.doc.feat("comment-ignores-key")
			}
		} else if g.chance(1, 3) {
			sec["allow_comment_ignores"] = g.chance(3, 4)
			g.doc.feat("comment-ignores-key")
		}
	} else if g.chance(1, 3) {
		sec["ignore_unstable_packages"] = g.chance(3, 4)
	}
	return sec
}

func (g *c16Gen) moduleName(i int) string {
	return fmt.Sprintf("%s/%s/%s", g.pick([]string{"buf.build", "buf.test", "bsr.corp.example.com"}), g.pick([]string{"acme", "x-y", "org1"}), g.pick([]string{"pets", "weather", "a-b"})+fmt.Sprint(i))
}

func (g *c16Gen) deps(doc map[string]any) {
	if !g.chance(1, 2) {
		return
	}
	n := 1 + g.r.IntN(4)
	var out []any
	for i := 0; i < n; i++ {
		d := g.moduleName(100 + i*7 + g.r.IntN(5))
		switch g.r.IntN(4) {
		case 0:
			d += ":" + g.pick([]string{"main", "v1.2.3", "feature/x"})
			g.doc.feat("dep-label")
		case 1:
			d += ":" + c16Hex(g.r, 32)
			g.doc.feat("dep-commit")
		}
		out = append(out, d)
	}
	g.doc.feat("deps")
	doc["deps"] = out
}

func c16Hex(r *rand.Rand, n int) string {
	const hexd = "0123456789abcdef"
	var sb strings.Builder
	for i := 0; i < n; i++ {
		sb.WriteByte(hexd[r.IntN(16)])
	}
	return sb.String()
}

// --- buf.yaml -----------------------------------------------------------------------------

func (g *c16Gen) bufYAMLv1(version string) map[string]any {
	doc := map[string]any{"version": version}
	if g.chance(1, 2) {
		doc["name"] = g.moduleName(0)
	}
	g.deps(doc)
	build := map[string]any{}
	roots := []string{"."}
	if version == "v1beta1" && g.chance(3, 5) {
		roots = g.subset([]string{"proto", "vendor/acme", "third_party/x", "api", "."}, 1, 3)
		hasDot := false
		for _, r := range roots {
			if r == "." {
				hasDot = true
			}
		}
		if hasDot {
			roots = []string{"."} // "." contains every other root
		}
		build["roots"] = g.spellAll(roots)
		g.doc.feat(fmt.Sprintf("roots=%d", len(roots)))
	}
	if g.chance(1, 2) {
		var ex []string
		for _, root := range roots {
			if g.chance(2, 3) {
				for _, p := range g.nonNested(1, 2) {
					if !strings.HasSuffix(p, ".proto") {
						ex = append(ex, c16Join(root, p))
					}
				}
			}
		}
		if len(ex) > 0 {
			build["excludes"] = g.spellAll(ex)
			g.doc.feat("excludes")
		}
	}
	if len(build) > 0 {
		doc["build"] = build
	}
	for _, kind := range []string{"lint", "breaking"} {
		if g.chance(3, 4) {
			var dis []string
			if g.chance(1, 6) {
				dis = []string{"."}
			}
			sec := g.checkSection(kind, version, ".", dis, nil)
			if len(sec) > 0 {
				doc[kind] = sec
			}
		}
	}
	return doc
}

var c16ModuleDirs = []string{"proto", "vendor/acme", "third_party/x", "api", "api/internal", ".", "proto/sub", "a b/c"}

func (g *c16Gen) includesExcludes(dir string, mod map[string]any) {
	var includes []string
	if g.chance(2, 5) {
		for _, p := range g.nonNested(1, 3) {
			if !strings.HasSuffix(p, ".proto") {
				includes = append(includes, p)
			}
		}
		if len(includes) > 0 {
			var full []string
			for _, p := range includes {
				full = append(full, c16Join(dir, p))
			}
			mod["includes"] = g.spellAll(full)
			g.doc.feat("includes")
		}
	}
	if g.chance(2, 5) {
		var ex []string
		if len(includes) > 0 {
			for _, inc := range includes {
				if g.chance(1, 2) {
					ex = append(ex, c16Join(dir, inc+"/"+g.pick([]string{"internal", "testdata/x"})))
				}
			}
		} else {
			for _, p := range g.nonNested(1, 2) {
				if !strings.HasSuffix(p, ".proto") {
					ex = append(ex, c16Join(dir, p))
				}
			}
		}
		if len(ex) > 0 {
			mod["excludes"] = g.spellAll(ex)
			g.doc.feat("excludes")
		}
	}
}

func (g *c16Gen) bufYAMLv2() map[string]any {
	doc := map[string]any{"version": "v2"}
	nmod := []int{0, 1, 1, 2, 2, 3, 4}[g.r.IntN(7)]
	if g.big && g.chance(1, 4) {
		nmod = 5 + g.r.IntN(4)
	}
	var dirs []string
	if nmod == 0 {
		dirs = nil
		if g.chance(1, 2) {
			doc["name"] = g.moduleName(0)
		}
		g.doc.feat("modules=implicit")
	} else {
		var mods []any
		for i := 0; i < nmod; i++ {
			dir := g.pick(c16ModuleDirs)
			if nmod == 1 && g.chance(1, 2) {
				dir = "."
			}
			for _, d := range dirs {
				if d == dir {
					g.doc.feat("same-dir-modules")
				} else if strings.HasPrefix(d+"/", dir+"/") || strings.HasPrefix(dir+"/", d+"/") || d == "." || dir == "." {
					g.doc.feat("nested-module-dirs")
				}
			}
			dirs = append(dirs, dir)
			mod := map[string]any{}
			if dir != "." || g.chance(2, 3) {
				mod["path"] = g.spell(dir)
			} else {
				g.doc.feat("module-path-omitted")
			}
			if g.chance(1, 2) {
				mod["name"] = g.moduleName(i)
			}
			g.includesExcludes(dir, mod)
			for _, kind := range []string{"lint", "breaking"} {
				if g.chance(1, 3) {
					var dis []string
					if g.chance(1, 5) {
						dis = []string{dir}
					}
					sec := g.checkSection(kind, "v2", dir, dis, nil)
					if len(sec) > 0 {
						mod[kind] = sec
						g.doc.feat("per-module-" + kind)
					}
				}
			}
			mods = append(mods, mod)
		}
		doc["modules"] = mods
		if nmod == 1 && dirs[0] == "." {
			g.doc.feat("modules=single-root")
		} else {
			g.doc.feat(fmt.Sprintf("modules=%d", min(nmod, 5)))
		}
	}
	for _, kind := range []string{"lint", "breaking"} {
		if g.chance(1, 2) {
			var dis, extra []string
			if len(dirs) > 0 && g.chance(1, 4) {
				dis = []string{g.pick(dirs)}
			} else if len(dirs) == 0 && g.chance(1, 5) {
				dis = []string{"."}
			}
			// paths inside particular modules and outside every module
			if len(dirs) > 0 && g.chance(1, 3) {
				d := g.pick(dirs)
				if d != "." {
					extra = append(extra, d+"/only/here")
					g.doc.feat("top-level-path-in-one-module")
				}
			}
			base := "."
			sec := g.checkSection(kind, "v2", base, dis, extra)
			if len(sec) > 0 {
				doc[kind] = sec
				g.doc.feat("top-level-" + kind)
			}
		}
	}
	g.deps(doc)
	if g.chance(1, 3) {
		n := 1 + g.r.IntN(3)
		var plugins []any
		for i := 0; i < n; i++ {
			p := map[string]any{}
			var name string
			switch g.r.IntN(4) {
			case 0:
				name = g.pick([]string{"buf-plugin-acme", "./bin/buf-plugin-x", "/opt/plugins/buf-plugin-y"})
				g.doc.feat("plugin-local")
			case 1:
				name = g.pick([]string{"plugins/check.wasm", "x.wasm"})
				g.doc.feat("plugin-wasm")
			case 2:
				name = g.moduleName(50+i) + g.pick([]string{"", ":v1.0.0", ":main"})
				g.doc.feat("plugin-remote")
			default:
				name = "buf-plugin-" + g.pick([]string{"a", "b", "c"})
				g.doc.feat("plugin-local")
			}
			if g.chance(1, 3) {
				p["plugin"] = []any{name, "--flag", g.pick([]string{"x", "y=z"})}
				g.doc.feat("plugin-args")
			} else {
				p["plugin"] = name
			}
			if g.chance(1, 2) {
				opts := map[string]any{}
				for _, k := range g.subset([]string{"timestamp_suffix", "limit", "enabled", "names", "ratio"}, 1, 3) {
					switch k {
					case "limit":
						opts[k] = g.r.IntN(100)
					case "enabled":
						opts[k] = g.chance(1, 2)
					case "names":
						opts[k] = strs(g.subset([]string{"a", "b", "c"}, 1, 3))
					case "ratio":
						opts[k] = 0.5 + float64(g.r.IntN(4))
					default:
						opts[k] = g.pick([]string{"_time", "_ts"})
					}
				}
				p["options"] = opts
				g.doc.feat("plugin-options")
			}
			plugins = append(plugins, p)
		}
		doc["plugins"] = plugins
	}
	return doc
}

// --- buf.lock -----------------------------------------------------------------------------

func (g *c16Gen) bufLock(version string) map[string]any {
	doc := map[string]any{}
	if version != "" {
		doc["version"] = version
	}
	n := g.r.IntN(5)
	if g.big && g.chance(1, 4) {
		n = 5 + g.r.IntN(20)
	}
	var deps []any
	for i := 0; i < n; i++ {
		if version == "v2" {
			deps = append(deps, map[string]any{"name": g.moduleName(i), "commit": c16Hex(g.r, 32), "digest": "b5:" + c16Hex(g.r, 128)})
			g.doc.feat("digest-b5")
		} else {
			name := strings.Split(g.moduleName(i), "/")
			d := map[string]any{"remote": name[0], "owner": name[1], "repository": name[2], "commit": c16Hex(g.r, 32), "digest": "shake256:" + c16Hex(g.r, 128)}
			if g.chance(1, 3) {
				d["branch"] = "main"
			}
			if g.chance(1, 3) {
				d["create_time"] = "2023-04-05T06:07:08.123Z"
				g.doc.feat("lock-legacy-fields")
			}
			deps = append(deps, d)
			g.doc.feat("digest-b4")
		}
	}
	if len(deps) > 0 {
		g.r.Shuffle(len(deps), func(i, j int) { deps[i], deps[j] = deps[j], deps[i] })
		doc["deps"] = deps
	} else {
		g.doc.feat("lock-empty")
	}
	if version == "v2" && g.chance(1, 2) {
		var plugins []any
		for i := 0; i < 1+g.r.IntN(3); i++ {
			plugins = append(plugins, map[string]any{"name": g.moduleName(40 + i), "commit": c16Hex(g.r, 32), "digest": "p1:" + c16Hex(g.r, 128)})
		}
		doc["plugins"] = plugins
		g.doc.feat("lock-plugins")
	}
	return doc
}

// --- buf.work.yaml ------------------------------------------------------------------------

func (g *c16Gen) bufWork() map[string]any {
	dirs := g.subset([]string{"proto", "vendor/acme", "third_party/x", "api/v1", "a b/c", "zz"}, 1, 5)
	g.doc.feat(fmt.Sprintf("dirs=%d", len(dirs)))
	return map[string]any{"version": "v1", "directories": g.spellAll(dirs)}
}

// --- buf.gen.yaml -------------------------------------------------------------------------

func (g *c16Gen) opt() any {
	switch g.r.IntN(3) {
	case 0:
		return g.pick([]string{"paths=source_relative", "a=b"})
	case 1:
		g.doc.feat("opt-list")
		return strs(g.subset([]string{"paths=source_relative", "Mfoo.proto=example.com/foo", "x", "a=b,c"}, 1, 3))
	default:
		return "a=b,c=d"
	}
}

var c16RemotePlugins = []string{"buf.build/protocolbuffers/go", "buf.build/protocolbuffers/go:v1.31.0", "buf.build/grpc/go:v1.3.0", "buf.test/acme/gen-x:v0.1.0-rc.1"}

func (g *c16Gen) bufGenV1Beta1() map[string]any {
	doc := map[string]any{"version": "v1beta1"}
	if g.chance(1, 2) {
		doc["managed"] = g.chance(3, 4)
		g.doc.feat("managed")
	}
	var plugins []any
	for i := 0; i < 1+g.r.IntN(3); i++ {
		p := map[string]any{"name": g.pick([]string{"go", "java", "cpp", "go-grpc", "validate", "custom_thing"}), "out": g.pick([]string{"gen/go", "gen", "out/x y"})}
		if g.chance(1, 2) {
			p["opt"] = g.opt()
		}
		if g.chance(1, 3) {
			p["path"] = g.pick([]string{"/usr/local/bin/protoc-gen-x", "bin/protoc-gen-y"})
			g.doc.feat("plugin-path")
		}
		if g.chance(1, 3) {
			p["strategy"] = g.pick([]string{"directory", "all"})
			g.doc.feat("strategy")
		}
		plugins = append(plugins, p)
	}
	doc["plugins"] = plugins
	if g.chance(1, 2) {
		o := map[string]any{}
		if g.chance(1, 2) {
			o["cc_enable_arenas"] = g.chance(1, 2)
		}
		if g.chance(1, 2) {
			o["java_multiple_files"] = g.chance(1, 2)
		}
		if g.chance(1, 2) {
			o["optimize_for"] = g.pick([]string{"SPEED", "CODE_SIZE", "LITE_RUNTIME"})
		}
		if len(o) > 0 {
			doc["options"] = o
			g.doc.feat("managed-options")
		}
	}
	return doc
}

func (g *c16Gen) exceptOverride(withDefault, defaultRequired bool, values []string) any {
	m := map[string]any{}
	if withDefault && (defaultRequired || g.chance(1, 2)) {
		m["default"] = g.pick(values)
	}
	mods := g.subset([]string{"buf.build/acme/a", "buf.build/acme/b", "buf.test/x/c", "buf.build/googleapis/googleapis"}, 2, 4)
	if g.chance(1, 2) {
		m["except"] = strs(mods[:1])
	}
	if g.chance(1, 2) {
		ov := map[string]any{}
		for _, mod := range mods[1:] {
			ov[mod] = g.pick(values)
		}
		m["override"] = ov
	}
	return m
}

func (g *c16Gen) bufGenV1() map[string]any {
	doc := map[string]any{"version": "v1"}
	var plugins []any
	for i := 0; i < 1+g.r.IntN(3); i++ {
		p := map[string]any{"out": g.pick([]string{"gen/go", "gen", "out/x y"})}
		remote := false
		switch g.r.IntN(5) {
		case 0: // remote
			remote = true
			p["plugin"] = g.pick(c16RemotePlugins)
			if g.chance(1, 2) {
				p["revision"] = 1 + g.r.IntN(5)
			}
			g.doc.feat("plugin-remote")
		case 1: // local with path
			key := g.pick([]string{"plugin", "name"})
			p[key] = g.pick([]string{"go", "custom_thing"})
			if g.chance(1, 2) {
				p["path"] = "/usr/local/bin/protoc-gen-x"
			} else {
				p["path"] = []any{"go", "run", "example.com/cmd/protoc-gen-x"}
				g.doc.feat("path-list")
			}
			g.doc.feat("plugin-local-path")
		case 2: // protoc builtin with protoc_path
			p[g.pick([]string{"plugin", "name"})] = g.pick([]string{"java", "cpp", "python"})
			if g.chance(1, 2) {
				p["protoc_path"] = "/usr/bin/protoc"
			} else {
				p["protoc_path"] = []any{"/usr/bin/protoc", "--experimental_editions"}
			}
			g.doc.feat("plugin-protoc-builtin")
		default: // by name only
			p[g.pick([]string{"plugin", "name"})] = g.pick([]string{"go", "java", "cpp", "go-grpc", "validate", "custom_thing", "kotlin"})
			g.doc.feat("plugin-local-or-builtin")
		}
		if !remote && g.chance(1, 3) {
			p["strategy"] = g.pick([]string{"directory", "all"})
			g.doc.feat("strategy")
		}
		if g.chance(1, 2) {
			p["opt"] = g.opt()
		}
		plugins = append(plugins, p)
	}
	doc["plugins"] = plugins
	if g.chance(2, 3) {
		m := map[string]any{"enabled": g.chance(4, 5)}
		g.doc.feat("managed")
		if g.chance(1, 3) {
			m["cc_enable_arenas"] = g.chance(1, 2)
		}
		if g.chance(1, 3) {
			m["java_multiple_files"] = g.chance(1, 2)
		}
		if g.chance(1, 3) {
			m["java_string_check_utf8"] = g.chance(1, 2)
		}
		if g.chance(1, 3) {
			if g.chance(1, 2) {
				m["java_package_prefix"] = "com.acme"
				g.doc.feat("managed-string-form")
			} else {
				m["java_package_prefix"] = g.exceptOverride(true, true, []string{"com.acme", "org"})
			}
			g.doc.feat("managed-java_package_prefix")
		}
		if g.chance(1, 4) {
			m["csharp_namespace"] = g.exceptOverride(false, false, []string{"Acme.Foo", "X"})
			g.doc.feat("managed-csharp_namespace")
		}
		if g.chance(1, 3) {
			if g.chance(1, 2) {
				m["optimize_for"] = g.pick([]string{"SPEED", "CODE_SIZE", "LITE_RUNTIME"})
				g.doc.feat("managed-string-form")
			} else {
				m["optimize_for"] = g.exceptOverride(true, true, []string{"SPEED", "CODE_SIZE", "LITE_RUNTIME"})
			}
			g.doc.feat("managed-optimize_for")
		}
		if g.chance(1, 3) {
			m["go_package_prefix"] = g.exceptOverride(true, true, []string{"example.com/gen", "github.com/acme/x/gen"})
			g.doc.feat("managed-go_package_prefix")
		}
		if g.chance(1, 4) {
			m["objc_class_prefix"] = g.exceptOverride(true, false, []string{"ACM", "XY"})
			g.doc.feat("managed-objc_class_prefix")
		}
		if g.chance(1, 4) {
			m["ruby_package"] = g.exceptOverride(false, false, []string{"Acme::Foo", "X"})
			g.doc.feat("managed-ruby_package")
		}
		if g.chance(1, 3) {
			ov := map[string]any{}
			for _, k := range g.subset([]string{"JAVA_PACKAGE", "GO_PACKAGE", "java_multiple_files", "CC_ENABLE_ARENAS", "OPTIMIZE_FOR", "CSHARP_NAMESPACE", "php_namespace", "JAVA_OUTER_CLASSNAME"}, 1, 3) {
				files := map[string]any{}
				for _, f := range g.subset([]string{"acme/a/v1/a.proto", "acme/b/v1/b.proto", "x.proto"}, 1, 2) {
					switch strings.ToLower(k) {
					case "java_multiple_files", "cc_enable_arenas":
						files[f] = g.pick([]string{"true", "false"})
					case "optimize_for":
						files[f] = g.pick([]string{"SPEED", "CODE_SIZE"})
					default:
						files[f] = g.pick([]string{"com.acme.a", "example.com/x;xpb", "Foo"})
					}
				}
				ov[k] = files
			}
			m["override"] = ov
			g.doc.feat("managed-per-file-override")
		}
		doc["managed"] = m
	}
	if g.chance(1, 4) {
		doc["types"] = map[string]any{"include": strs(g.subset([]string{"acme.a.v1.A", "acme.b.v1.BService", "acme.c.v1.E"}, 1, 3))}
		g.doc.feat("v1-types")
	}
	return doc
}

var c16FileOptionValues = map[string][]any{
	"java_package": {"com.acme"}, "java_package_prefix": {"com", "org.acme"}, "java_package_suffix": {"gen"}, "java_outer_classname": {"FooProto"},
	"java_multiple_files": {true, false}, "java_string_check_utf8": {true, false}, "optimize_for": {"SPEED", "CODE_SIZE", "LITE_RUNTIME"},
	"go_package": {"example.com/x;xpb"}, "go_package_prefix": {"example.com/gen"}, "cc_enable_arenas": {true, false}, "objc_class_prefix": {"ACM"},
	"csharp_namespace": {"Acme.X"}, "csharp_namespace_prefix": {"Acme"}, "php_namespace": {`Acme\X`}, "php_metadata_namespace": {`Acme\Meta`},
	"php_metadata_namespace_suffix": {"Meta"}, "ruby_package": {"Acme::X"}, "ruby_package_suffix": {"Gen"},
}

func (g *c16Gen) managedV2() map[string]any {
	m := map[string]any{}
	if g.chance(4, 5) {
		m["enabled"] = g.chance(4, 5)
	}
	var fileOpts []string
	for k := range c16FileOptionValues {
		fileOpts = append(fileOpts, k)
	}
	sort.Strings(fileOpts)
	scope := func(e map[string]any) {
		if g.chance(1, 3) {
			e["module"] = g.pick([]string{"buf.build/acme/a", "buf.test/x/c"})
		}
		if g.chance(1, 3) {
			e["path"] = g.pick([]string{"acme/a/v1", "acme/a/v1/a.proto", "x.proto"})
		}
	}
	if g.chance(1, 2) {
		var ds []any
		for i := 0; i < 1+g.r.IntN(3); i++ {
			e := map[string]any{}
			switch g.r.IntN(3) {
			case 0:
				e["file_option"] = g.pick(fileOpts)
			case 1:
				e["field_option"] = "jstype"
				if g.chance(1, 2) {
					e["field"] = "acme.a.v1.A.id"
				}
			default:
				e["module"] = "buf.build/googleapis/googleapis"
			}
			scope(e)
			ds = append(ds, e)
		}
		m["disable"] = ds
		g.doc.feat("managed-disable")
	}
	if g.chance(1, 2) {
		var os []any
		for i := 0; i < 1+g.r.IntN(4); i++ {
			e := map[string]any{}
			if g.chance(1, 5) {
				e["field_option"] = g.pick([]string{"jstype", "JSTYPE"})
				e["value"] = g.pick([]string{"JS_NORMAL", "JS_STRING", "JS_NUMBER"})
				if g.chance(1, 2) {
					e["field"] = "acme.a.v1.A.id"
				}
				g.doc.feat("managed-field-option")
			} else {
				k := g.pick(fileOpts)
				vals := c16FileOptionValues[k]
				e["value"] = vals[g.r.IntN(len(vals))]
				if g.chance(1, 6) {
					k = strings.ToUpper(k)
				}
				e["file_option"] = k
			}
			scope(e)
			os = append(os, e)
		}
		m["override"] = os
		g.doc.feat("managed-override")
	}
	return m
}

func (g *c16Gen) typesFilter(e map[string]any, where string) {
	if g.chance(1, 3) {
		e["types"] = strs(g.subset([]string{"acme.a.v1.A", "acme.b.v1.BService", "acme.c.v1.E"}, 1, 3))
		g.doc.feat(where + "-types")
	}
	if g.chance(1, 3) {
		e["exclude_types"] = strs(g.subset([]string{"acme.a.v1.Internal", "acme.b.v1.Debug"}, 1, 2))
		g.doc.feat(where + "-exclude_types")
	}
}

func (g *c16Gen) bufGenV2() map[string]any {
	doc := map[string]any{"version": "v2"}
	if g.chance(1, 4) {
		doc["clean"] = true
		g.doc.feat("clean")
	}
	if g.chance(2, 3) {
		doc["managed"] = g.managedV2()
		g.doc.feat("managed")
	}
	var plugins []any
	np := 1 + g.r.IntN(3)
	if g.chance(1, 12) {
		np = 0
		g.doc.feat("no-plugins")
	}
	for i := 0; i < np; i++ {
		p := map[string]any{"out": g.pick([]string{"gen/go", "gen", "out/x y"})}
		switch g.r.IntN(3) {
		case 0:
			p["remote"] = g.pick(c16RemotePlugins)
			if g.chance(1, 2) {
				p["revision"] = g.r.IntN(5)
			}
			g.doc.feat("plugin-remote")
		case 1:
			if g.chance(1, 2) {
				p["local"] = g.pick([]string{"protoc-gen-go", "/usr/local/bin/protoc-gen-x", "./bin/protoc-gen-y"})
			} else {
				p["local"] = []any{"go", "run", "example.com/cmd/protoc-gen-x"}
				g.doc.feat("path-list")
			}
			if g.chance(1, 3) {
				p["strategy"] = g.pick([]string{"directory", "all"})
				g.doc.feat("strategy")
			}
			g.doc.feat("plugin-local")
		default:
			p["protoc_builtin"] = g.pick([]string{"java", "cpp", "python"})
			if g.chance(1, 2) {
				if g.chance(1, 2) {
					p["protoc_path"] = "/usr/bin/protoc"
				} else {
					p["protoc_path"] = []any{"/usr/bin/protoc", "--experimental_editions"}
				}
			}
			if g.chance(1, 3) {
				p["strategy"] = g.pick([]string{"directory", "all"})
				g.doc.feat("strategy")
			}
			g.doc.feat("plugin-protoc-builtin")
		}
		if g.chance(1, 2) {
			p["opt"] = g.opt()
		}
		if g.chance(1, 3) {
			p["include_imports"] = true
			if g.chance(1, 2) {
				p["include_wkt"] = true
			}
			g.doc.feat("include-imports")
		}
		g.typesFilter(p, "plugin")
		plugins = append(plugins, p)
	}
	if len(plugins) > 0 {
		doc["plugins"] = plugins
	}
	if g.chance(2, 3) {
		var inputs []any
		for i := 0; i < 1+g.r.IntN(3); i++ {
			in := map[string]any{}
			kind := g.pick([]string{"module", "directory", "proto_file", "tarball", "zip_archive", "binary_image", "json_image", "text_image", "yaml_image", "git_repo", "git_repo"})
			g.doc.feat("input-" + kind)
			switch kind {
			case "module":
				in[kind] = g.pick([]string{"buf.build/acme/a", "buf.build/acme/a:main"})
			case "directory":
				in[kind] = g.pick([]string{".", "proto", "../other"})
			case "proto_file":
				in[kind] = "proto/acme/a/v1/a.proto"
				if g.chance(1, 2) {
					in["include_package_files"] = g.chance(2, 3)
				}
			case "tarball":
				in[kind] = g.pick([]string{"x.tar.gz", "https://example.com/x.tar"})
				if g.chance(1, 2) {
					in["compression"] = g.pick([]string{"gzip", "zstd", "none"})
				}
				if g.chance(1, 2) {
					in["strip_components"] = g.r.IntN(3)
				}
				if g.chance(1, 2) {
					in["subdir"] = "proto"
				}
			case "zip_archive":
				in[kind] = "x.zip"
				if g.chance(1, 2) {
					in["strip_components"] = g.r.IntN(3)
				}
				if g.chance(1, 2) {
					in["subdir"] = "proto"
				}
			case "git_repo":
				in[kind] = g.pick([]string{"https://github.com/acme/x.git", "ssh://git@github.com/acme/x"})
				switch g.r.IntN(6) {
				case 0:
					in["branch"] = "main"
					g.doc.feat("git-branch")
				case 1:
					in["tag"] = "v1.2.3"
					g.doc.feat("git-tag")
				case 2:
					in["commit"] = c16Hex(g.r, 40)
					g.doc.feat("git-commit")
				case 3:
					in["ref"] = "refs/pull/3/head"
					g.doc.feat("git-ref")
				case 4:
					// the one valid combination of two reference keys
					in["ref"] = g.pick([]string{"refs/pull/3/head", c16Hex(g.r, 40), "v1.2.3~1"})
					in["branch"] = g.pick([]string{"main", "release/v1"})
					g.doc.feat("git-ref+branch")
				}
				if g.chance(1, 3) {
					in["depth"] = g.r.IntN(4)
					g.doc.feat("git-depth")
				}
				if g.chance(1, 3) {
					in["recurse_submodules"] = g.chance(2, 3)
				}
				if g.chance(1, 3) {
					in["subdir"] = "proto"
				}
			default: // images
				in[kind] = g.pick([]string{"image.bin", "-", "x.json.gz"})
				if g.chance(1, 2) {
					in["compression"] = g.pick([]string{"gzip", "zstd"})
				}
			}
			g.typesFilter(in, "input")
			if g.chance(1, 3) {
				in["paths"] = strs(g.subset([]string{"acme/a", "acme/b/v1/b.proto"}, 1, 2))
				g.doc.feat("input-paths")
			}
			if g.chance(1, 3) {
				in["exclude_paths"] = strs(g.subset([]string{"acme/a/internal", "acme/c"}, 1, 2))
				g.doc.feat("input-exclude_paths")
			}
			inputs = append(inputs, in)
		}
		doc["inputs"] = inputs
	}
	return doc
}

// --- entry point --------------------------------------------------------------------------

// c16GenDoc produces the document for (kind index, rng).
func c16GenDoc(r *rand.Rand, slot int, big bool) *c16Doc {
	doc := &c16Doc{Features: map[string]bool{}}
	g := &c16Gen{r: r, doc: doc, big: big}
	var tree map[string]any
	// slots weight buf.yaml (the richest format) highest
	switch slot % 16 {
	case 0, 1, 2, 3, 4, 5:
		doc.Kind, doc.Version = "buf.yaml", "v2"
		tree = g.bufYAMLv2()
	case 6, 7:
		doc.Kind, doc.Version = "buf.yaml", "v1"
		tree = g.bufYAMLv1("v1")
	case 8, 9:
		doc.Kind, doc.Version = "buf.yaml", "v1beta1"
		tree = g.bufYAMLv1("v1beta1")
	case 10:
		doc.Kind = "buf.lock"
		doc.Version = g.pick([]string{"v1", "v1beta1", "", "v2", "v2"})
		tree = g.bufLock(doc.Version)
	case 11:
		doc.Kind, doc.Version = "buf.work.yaml", "v1"
		tree = g.bufWork()
	case 12:
		doc.Kind, doc.Version = "buf.gen.yaml", "v1"
		tree = g.bufGenV1()
	case 13:
		doc.Kind, doc.Version = "buf.gen.yaml", "v1beta1"
		tree = g.bufGenV1Beta1()
	default:
		doc.Kind, doc.Version = "buf.gen.yaml", "v2"
		tree = g.bufGenV2()
	}
	if g.chance(1, 6) {
		doc.JSON = true
		doc.feat("json-form")
		data, err := json.Marshal(tree)
		if err != nil {
			panic(err)
		}
		doc.Text = data
	} else {
		data, err := yaml.Marshal(tree)
		if err != nil {
			panic(err)
		}
		if doc.Kind == "buf.yaml" && g.chance(1, 8) {
			data = append([]byte(fmt.Sprintf("# For details on buf.yaml configuration, visit https://buf.build/docs/configuration/%s/buf-yaml\n", doc.Version)), data...)
			doc.feat("docs-link")
		}
		doc.Text = data
	}
	return doc
}
