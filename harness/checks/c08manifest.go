package checks

import (
	"bytes"
	"fmt"
	"strings"

	"github.com/bufbuild/buf/private/bufpkg/bufcas"
	"github.com/bufbuild/buf/private/bufpkg/bufmodule"
	"github.com/bufbuild/buf/private/pkg/slogext"
	"github.com/bufbuild/buf/private/pkg/storage"
	"github.com/bufbuild/buf/private/pkg/storage/storagemem"
	"github.com/bufbuild/verifharness/model"
)

// Manifest clauses: canonical text equals the model's text on every backend; the text parses
// back to an equal manifest; file nodes parse back; construction order is irrelevant; blobs carry
// the contents.

func c08PathFeature(files map[string][]byte) string {
	f := "plain"
	for p := range files {
		if strings.Contains(p, "\n") {
			return "newline_in_path"
		}
		if strings.Contains(p, "  ") {
			f = "double_space_in_path"
		}
	}
	return f
}

func c08CheckFileSet(e *c08Env, label string, bucket storage.ReadBucket, files map[string][]byte) {
	c := e.c
	feature := c08PathFeature(files)
	key := "feature=" + feature
	c.Eval(1)
	fs, err := bufcas.NewFileSetForBucket(e.ctx, bucket)
	if err != nil {
		if feature == "newline_in_path" {
			// the line format cannot represent such a path; rejecting it keeps manifests canonical
			c.Count("newline_paths_rejected", 1)
			return
		}
		c.Violation("fileset-error", key+" "+label, fmt.Sprintf("NewFileSetForBucket(%s) failed on paths %q: %v", label, c08SortedPaths(files), err), nil)
		return
	}
	m := fs.Manifest()
	text := m.String()
	c.Count("manifests_checked", 1)
	c.Distinct("manifest_feature", feature)
	if want := model.ManifestText(files); text != want {
		c.Violation("manifest-text-differs", key+" "+label, fmt.Sprintf("Manifest.String() on %s differs from the canonical text of the model\n got: %q\nwant: %q", label, clip([]byte(text)), clip([]byte(want))), map[string]any{"got": text, "want": want})
	}
	// text -> manifest -> text
	c.Eval(1)
	parsed, err := bufcas.ParseManifest(text)
	switch {
	case err != nil:
		c.Violation("manifest-roundtrip", key, fmt.Sprintf("ParseManifest(Manifest.String()) failed for paths %q: %v", c08SortedPaths(files), err), nil)
	case parsed.String() != text:
		c.Violation("manifest-roundtrip", key, fmt.Sprintf("ParseManifest(text).String() != text for paths %q", c08SortedPaths(files)), map[string]any{"text": text, "reparsed": parsed.String()})
	default:
		a, b := m.FileNodes(), parsed.FileNodes()
		same := len(a) == len(b)
		for i := 0; same && i < len(a); i++ {
			same = a[i].Path() == b[i].Path() && a[i].Digest().String() == b[i].Digest().String()
		}
		if !same || len(a) != len(files) {
			c.Violation("manifest-roundtrip", key, fmt.Sprintf("re-parsed manifest has different (path,digest) pairs for paths %q: %d vs %d nodes, %d files", c08SortedPaths(files), len(a), len(b), len(files)), nil)
		} else {
			c.Count("manifests_roundtripped", 1)
		}
	}
	// node -> text -> node, lookups
	nodes := m.FileNodes()
	for _, node := range nodes {
		c.Eval(1)
		back, err := bufcas.ParseFileNode(node.String())
		if err != nil || back.Path() != node.Path() || back.Digest().String() != node.Digest().String() {
			got := "error: " + fmt.Sprint(err)
			if err == nil {
				got = fmt.Sprintf("(%q,%s)", back.Path(), c08Short(back.Digest().String()))
			}
			c.Violation("filenode-roundtrip", key, fmt.Sprintf("ParseFileNode(%q) = %s, want path %q", node.String(), got, node.Path()), nil)
		}
		data, ok := files[node.Path()]
		if !ok {
			c.Violation("manifest-text-differs", key+" "+label, fmt.Sprintf("manifest lists %q which is not a file of the bucket", node.Path()), nil)
			continue
		}
		if want := model.Shake256(data); node.Digest().String() != want || m.GetDigest(node.Path()) == nil || m.GetDigest(node.Path()).String() != want {
			c.Violation("manifest-text-differs", key+" "+label, fmt.Sprintf("file node %q carries digest %s, content digest is %s", node.Path(), node.Digest(), want), nil)
		}
		blob := fs.BlobSet().GetBlob(node.Digest())
		if blob == nil || !bytes.Equal(blob.Content(), data) {
			c.Violation("fileset-blob", key+" "+label, fmt.Sprintf("blob of %q missing or with different content", node.Path()), nil)
		}
	}
	// enumeration order of the constructor is irrelevant
	if len(nodes) > 1 {
		sh := append([]bufcas.FileNode{}, nodes...)
		c.Rand.Shuffle(len(sh), func(i, j int) { sh[i], sh[j] = sh[j], sh[i] })
		c.Eval(1)
		m2, err := bufcas.NewManifest(sh)
		if err != nil || m2.String() != text {
			c.Violation("manifest-order", key, fmt.Sprintf("NewManifest over a shuffled node list: err=%v, text equal=%v", err, err == nil && m2.String() == text), nil)
		}
	}
	// manifest <-> blob, manifest digest
	c.Eval(2)
	blob, err := bufcas.ManifestToBlob(m)
	if err != nil || string(blob.Content()) != text || blob.Digest().String() != model.Shake256([]byte(text)) {
		c.Violation("manifest-text-differs", key+" blob", fmt.Sprintf("ManifestToBlob: err=%v", err), nil)
	} else if back, err := bufcas.BlobToManifest(blob); err != nil || back.String() != text {
		c.Violation("manifest-roundtrip", key, fmt.Sprintf("BlobToManifest(ManifestToBlob(m)) failed or differs for paths %q: %v", c08SortedPaths(files), err), nil)
	}
	if d, err := bufcas.ManifestToDigest(m); err != nil || d.String() != model.Shake256([]byte(text)) {
		c.Violation("manifest-text-differs", key+" digest", fmt.Sprintf("ManifestToDigest = %v, %v; SHAKE256 of the text is %s", d, err, model.Shake256([]byte(text))), nil)
	}
	if _, err := bufcas.NewFileSet(m, fs.BlobSet()); err != nil {
		c.Violation("fileset-error", key+" "+label, fmt.Sprintf("NewFileSet(manifest, blobSet) of a file set read from a bucket: %v", err), nil)
	}
}

var c08HostilePaths = []string{"  a", "a  ", "a  b  c", "shake256:abc  x", " ", "  ", "a/ /b", "d/  /e", "x  y/z  z.proto", "t  ", "   three", "q/shake256:00  r", "sp ace", "ü  ü", "LICENSE  ", "buf.md  x"}

func (e *c08Env) hostileContent() []byte {
	switch e.c.Rand.IntN(4) {
	case 0:
		return []byte{}
	case 1:
		return []byte("  \n  ")
	default:
		return []byte(fmt.Sprintf("hostile %d", e.c.Rand.IntN(1000)))
	}
}

func c08Manifests(e *c08Env, u *c08Universe) {
	c := e.c
	backends := []c08Backend{c08Backends[0], c08Backends[1], c08Backends[2], c08Backends[4], c08Backends[5], c08Backends[6], c08Backends[8]}
	for i, m := range u.Mods {
		b := backends[c.Rand.IntN(len(backends))]
		files := m.files()
		if c.Rand.IntN(2) == 0 {
			files = model.ModuleFiles(files)
		}
		rb, err := b.mk(e, fmt.Sprintf("mf%d", i), files)
		if err != nil {
			c.Violation("fileset-error", "backend="+b.name, fmt.Sprintf("backend %s failed: %v", b.name, err), nil)
			continue
		}
		c08CheckFileSet(e, "backend="+b.name, rb, files)
	}
	// the empty file set
	if c.Rand.IntN(8) == 0 {
		rb, _ := storagemem.NewReadBucket(map[string][]byte{})
		c08CheckFileSet(e, "backend=mem", rb, map[string][]byte{})
	}
	// hostile path sets (spaces)
	{
		files := map[string][]byte{}
		n := 1 + c.Rand.IntN(5)
		for k := 0; k < n; k++ {
			p := c08HostilePaths[c.Rand.IntN(len(c08HostilePaths))]
			ok := true
			for q := range files {
				ok = ok && !strings.HasPrefix(q, p+"/") && !strings.HasPrefix(p, q+"/")
			}
			if ok {
				files[p] = e.hostileContent()
			}
		}
		b := backends[c.Rand.IntN(3)]
		if rb, err := b.mk(e, "hostile", files); err == nil {
			c08CheckFileSet(e, "backend="+b.name, rb, files)
		} else {
			c.Violation("fileset-error", "backend="+b.name+" hostile", fmt.Sprintf("backend %s rejected valid relative paths %q: %v", b.name, c08SortedPaths(files), err), nil)
		}
	}
	// newline in a path: either rejected, or the round trip must hold
	if c.Rand.IntN(4) == 0 {
		p := []string{"a\nb", "x/\n/y", "a.proto\nshake256:" + strings.Repeat("ab", 64) + "  b.proto", "tail\n", "\nhead"}[c.Rand.IntN(5)]
		files := map[string][]byte{p: e.hostileContent(), "plain.txt": []byte("x")}
		rb, err := storagemem.NewReadBucket(files)
		if err != nil {
			c.Count("newline_paths_rejected", 1)
		} else {
			c.Count("newline_path_sets", 1)
			c08CheckFileSet(e, "backend=mem", rb, files)
		}
		c08NewlineCollision(e)
	}
}

// c08NewlineCollision: two different module file sets whose manifests are the same text.
func c08NewlineCollision(e *c08Env) {
	c := e.c
	x := []byte(fmt.Sprintf("syntax = \"proto3\";\n// x%d\n", c.Rand.IntN(1000)))
	y := []byte(fmt.Sprintf("// y%d\n", c.Rand.IntN(1000)))
	one := map[string][]byte{"a.proto\n" + model.Shake256(y) + "  b.proto": x}
	two := map[string][]byte{"a.proto": x, "b.proto": y}
	var d5, d4 [2]string
	for i, files := range []map[string][]byte{one, two} {
		rb, err := storagemem.NewReadBucket(files)
		if err != nil {
			c.Count("newline_paths_rejected", 1)
			return
		}
		ms, err := bufmodule.NewModuleSetBuilder(e.ctx, slogext.NopLogger, bufmodule.NopModuleDataProvider, bufmodule.NopCommitProvider).AddLocalModule(rb, "m", true).Build()
		if err != nil {
			c.Count("newline_paths_rejected", 1)
			return
		}
		c.Eval(2)
		d5[i], d4[i], err = c08ReadDigests(ms.GetModuleForBucketID("m"))
		if err != nil {
			c.Count("newline_paths_rejected", 1)
			return
		}
	}
	c.Count("newline_collision_probes", 1)
	if d5[0] == d5[1] || d4[0] == d4[1] {
		c.Violation("digest-insensitive", "feature=newline_in_path",
			fmt.Sprintf("two different module file sets have the same digest: %q and %q both give b5=%s b4=%s (a path containing a newline forges manifest lines)", c08SortedPaths(one), c08SortedPaths(two), d5[0], d4[0]), nil)
	}
}
