package checks

import (
	"context"
	"errors"
	"fmt"
	"io/fs"
	"strings"
	"time"

	"github.com/bufbuild/buf/private/bufpkg/bufmodule"
	"github.com/bufbuild/buf/private/bufpkg/bufparse"
	"github.com/bufbuild/buf/private/pkg/slogext"
	"github.com/bufbuild/buf/private/pkg/storage"
	"github.com/bufbuild/verifharness/model"
	"github.com/google/uuid"
)

// Remote modules with pinned dependency keys. A remote module's b5 is computed from its files and
// from the digests pinned in its dependency keys (no import scanning), so its .proto files may
// hold any bytes and its dependency list may be any list of b5 digests. The module key pins the
// model's digest: the tamper proofing of ModuleData then reports every perturbation of a module
// file or of a dependency digest as a DigestMismatchError carrying the actual digest.

type c08PinnedDep struct {
	name   string
	commit uuid.UUID
	digest string // "b5:<hex>"
}

type c08RemoteMod struct {
	name   string
	commit uuid.UUID
	files  map[string][]byte
	deps   []c08PinnedDep
}

func (r *c08RemoteMod) clone() *c08RemoteMod {
	out := &c08RemoteMod{name: r.name, commit: r.commit, files: map[string][]byte{}, deps: append([]c08PinnedDep{}, r.deps...)}
	for k, v := range r.files {
		out.files[k] = append([]byte{}, v...)
	}
	return out
}

func (r *c08RemoteMod) modelB5() string {
	var deps []string
	for _, d := range r.deps {
		deps = append(deps, d.digest)
	}
	return model.B5(r.files, deps)
}

func c08Key(name string, commit uuid.UUID, digest string) (bufmodule.ModuleKey, error) {
	fn, err := bufparse.ParseFullName(name)
	if err != nil {
		return nil, err
	}
	return bufmodule.NewModuleKey(fn, commit, func() (bufmodule.Digest, error) { return bufmodule.ParseDigest(digest) })
}

type c08Provider struct {
	e       *c08Env
	backend c08Backend
	// served content per module name (possibly tampered); pinned: the digest the key carries
	served map[string]*c08RemoteMod
	// depsB4: the dependency keys carry legacy (b4) digests, the way a v1 buf.lock pins them; the b5 digests
	// then come from the commit provider
	depsB4 bool
}

// c08Commits plays the commit service: it knows the b5 module key of every pinned dependency commit.
type c08Commits struct {
	byCommit map[uuid.UUID]c08PinnedDep
	asked    int
}

func (cp *c08Commits) commit(id uuid.UUID) (bufmodule.Commit, error) {
	d, ok := cp.byCommit[id]
	if !ok {
		return nil, &fs.PathError{Op: "read", Path: id.String(), Err: fs.ErrNotExist}
	}
	mk, err := c08Key(d.name, d.commit, d.digest)
	if err != nil {
		return nil, err
	}
	cp.asked++
	return bufmodule.NewCommit(mk, func() (time.Time, error) { return time.Unix(1700000000, 0), nil }), nil
}

func (cp *c08Commits) GetCommitsForModuleKeys(ctx context.Context, keys []bufmodule.ModuleKey) ([]bufmodule.Commit, error) {
	var out []bufmodule.Commit
	for _, k := range keys {
		cm, err := cp.commit(k.CommitID())
		if err != nil {
			return nil, err
		}
		out = append(out, cm)
	}
	return out, nil
}

func (cp *c08Commits) GetCommitsForCommitKeys(ctx context.Context, keys []bufmodule.CommitKey) ([]bufmodule.Commit, error) {
	var out []bufmodule.Commit
	for _, k := range keys {
		if k.DigestType() != bufmodule.DigestTypeB5 {
			return nil, fmt.Errorf("commit service asked for digest type %v, b5 is the only type that may enter a b5 digest", k.DigestType())
		}
		cm, err := cp.commit(k.CommitID())
		if err != nil {
			return nil, err
		}
		out = append(out, cm)
	}
	return out, nil
}

func (p *c08Provider) GetModuleDatasForModuleKeys(ctx context.Context, keys []bufmodule.ModuleKey) ([]bufmodule.ModuleData, error) {
	var out []bufmodule.ModuleData
	for _, key := range keys {
		rm, ok := p.served[key.FullName().String()]
		if !ok {
			return nil, &fs.PathError{Op: "read", Path: key.String(), Err: fs.ErrNotExist}
		}
		rm = rm.clone()
		p.e.uniq++
		label := fmt.Sprintf("r%d", p.e.uniq)
		out = append(out, bufmodule.NewModuleData(ctx, key,
			func() (storage.ReadBucket, error) { return p.backend.mk(p.e, label, rm.files) },
			func() ([]bufmodule.ModuleKey, error) {
				var dk []bufmodule.ModuleKey
				for _, d := range rm.deps {
					digest := d.digest
					if p.depsB4 {
						digest = model.B4(map[string][]byte{"x.proto": []byte(d.name + d.commit.String())}, nil, nil)
					}
					k, err := c08Key(d.name, d.commit, digest)
					if err != nil {
						return nil, err
					}
					dk = append(dk, k)
				}
				return dk, nil
			},
			func() (bufmodule.ObjectData, error) { return nil, nil },
			func() (bufmodule.ObjectData, error) { return nil, nil },
		))
	}
	return out, nil
}

func (e *c08Env) randomDigest() string {
	b := make([]byte, 64)
	for i := range b {
		b[i] = byte(e.c.Rand.IntN(256))
	}
	return fmt.Sprintf("b5:%x", b)
}

// remoteDigest builds a module set with the one remote module (pinned digest `pinned`, served content
// `served`) and returns Digest(b5), Digest(b4).
func (e *c08Env) remoteDigest(pinned string, served *c08RemoteMod, b c08Backend) (string, string, error) {
	prov := &c08Provider{e: e, backend: b, served: map[string]*c08RemoteMod{served.name: served}}
	key, err := c08Key(served.name, served.commit, pinned)
	if err != nil {
		return "", "", err
	}
	ms, err := bufmodule.NewModuleSetBuilder(e.ctx, slogext.NopLogger, prov, bufmodule.NopCommitProvider).AddRemoteModule(key, true).Build()
	if err != nil {
		return "", "", fmt.Errorf("Build: %w", err)
	}
	fn, _ := bufparse.ParseFullName(served.name)
	return c08ReadDigests(ms.GetModuleForFullName(fn))
}

func c08ModuleFilePaths(files map[string][]byte, wantModule bool) []string {
	var out []string
	for _, p := range c08SortedPaths(files) {
		if model.IsModuleFile(files, p) == wantModule {
			out = append(out, p)
		}
	}
	return out
}

type c08Tamper struct {
	kind   string
	module bool
	apply  func(e *c08Env, r *c08RemoteMod) bool
}

var c08Tampers = []c08Tamper{
	{"flip-bit-in-module-file", true, func(e *c08Env, r *c08RemoteMod) bool {
		var cands []string
		for _, p := range c08ModuleFilePaths(r.files, true) {
			if len(r.files[p]) > 0 {
				cands = append(cands, p)
			}
		}
		if len(cands) == 0 {
			return false
		}
		p := cands[e.c.Rand.IntN(len(cands))]
		r.files[p] = c08FlipByte(e, r.files[p])
		return true
	}},
	{"append-or-drop-last-byte", true, func(e *c08Env, r *c08RemoteMod) bool {
		cands := c08ModuleFilePaths(r.files, true)
		p := cands[e.c.Rand.IntN(len(cands))]
		if len(r.files[p]) > 0 && e.c.Rand.IntN(2) == 0 {
			r.files[p] = r.files[p][:len(r.files[p])-1]
		} else {
			r.files[p] = append(r.files[p], 0)
		}
		return true
	}},
	{"rename-module-file", true, func(e *c08Env, r *c08RemoteMod) bool {
		var cands []string
		for _, p := range c08ModuleFilePaths(r.files, true) {
			if strings.HasSuffix(p, ".proto") {
				cands = append(cands, p)
			}
		}
		p := cands[e.c.Rand.IntN(len(cands))]
		np := strings.TrimSuffix(p, ".proto") + "~.proto"
		if e.c.Rand.IntN(2) == 0 {
			np = "moved/" + p
		}
		if _, ok := r.files[np]; ok {
			return false
		}
		r.files[np] = r.files[p]
		delete(r.files, p)
		return true
	}},
	{"add-module-file", true, func(e *c08Env, r *c08RemoteMod) bool {
		for _, p := range []string{"LICENSE", "buf.md", "added/by/tamper.proto"} {
			if _, ok := r.files[p]; !ok && e.c.Rand.IntN(2) == 0 {
				r.files[p] = []byte{}
				return true
			}
		}
		r.files["added/by/tamper2.proto"] = []byte("x")
		return true
	}},
	{"remove-module-file", true, func(e *c08Env, r *c08RemoteMod) bool {
		cands := c08ModuleFilePaths(r.files, true)
		if len(cands) < 2 {
			return false
		}
		delete(r.files, cands[e.c.Rand.IntN(len(cands))])
		return true
	}},
	{"swap-contents-of-two-module-files", true, func(e *c08Env, r *c08RemoteMod) bool {
		cands := c08ModuleFilePaths(r.files, true)
		if len(cands) < 2 {
			return false
		}
		a, b := cands[0], cands[len(cands)-1]
		if string(r.files[a]) == string(r.files[b]) {
			return false
		}
		r.files[a], r.files[b] = r.files[b], r.files[a]
		return true
	}},
	{"flip-bit-in-dependency-digest", true, func(e *c08Env, r *c08RemoteMod) bool {
		if len(r.deps) == 0 {
			return false
		}
		i := e.c.Rand.IntN(len(r.deps))
		hex := []byte(strings.TrimPrefix(r.deps[i].digest, "b5:"))
		j := e.c.Rand.IntN(len(hex))
		if hex[j] == '0' {
			hex[j] = '1'
		} else {
			hex[j] = '0'
		}
		r.deps[i].digest = "b5:" + string(hex)
		return true
	}},
	{"add-dependency", true, func(e *c08Env, r *c08RemoteMod) bool {
		r.deps = append(r.deps, c08PinnedDep{name: fmt.Sprintf("buf.build/tamper/added%d", len(r.deps)), commit: c08UUID(e), digest: e.randomDigest()})
		return true
	}},
	{"remove-dependency", true, func(e *c08Env, r *c08RemoteMod) bool {
		if len(r.deps) == 0 {
			return false
		}
		i := e.c.Rand.IntN(len(r.deps))
		r.deps = append(append([]c08PinnedDep{}, r.deps[:i]...), r.deps[i+1:]...)
		return true
	}},
	{"duplicate-a-dependency-digest", true, func(e *c08Env, r *c08RemoteMod) bool {
		// the construction hashes the sorted LIST of dependency digests
		if len(r.deps) == 0 {
			return false
		}
		d := r.deps[e.c.Rand.IntN(len(r.deps))]
		r.deps = append(r.deps, c08PinnedDep{name: "buf.build/tamper/twin", commit: c08UUID(e), digest: d.digest})
		return true
	}},
	// ---- must not matter ----
	{"non-module-file", false, func(e *c08Env, r *c08RemoteMod) bool {
		cands := c08ModuleFilePaths(r.files, false)
		switch {
		case len(cands) > 0 && e.c.Rand.IntN(2) == 0:
			delete(r.files, cands[0])
		case len(cands) > 0:
			r.files[cands[0]] = append(r.files[cands[0]], 'x')
		default:
			r.files["sub/LICENSE"] = []byte("not a module file")
		}
		return true
	}},
	{"reorder-dependencies-rename-them", false, func(e *c08Env, r *c08RemoteMod) bool {
		if len(r.deps) < 2 {
			return false
		}
		e.c.Rand.Shuffle(len(r.deps), func(i, j int) { r.deps[i], r.deps[j] = r.deps[j], r.deps[i] })
		for i := range r.deps {
			r.deps[i].name = fmt.Sprintf("example.com/renamed/dep%d", i)
			r.deps[i].commit = c08UUID(e)
		}
		return true
	}},
	{"rename-the-module", false, func(e *c08Env, r *c08RemoteMod) bool {
		r.name = "example.org/other/name"
		r.commit = c08UUID(e)
		return true
	}},
}

func c08Remote(e *c08Env) {
	c := e.c
	g := &c08Gen{r: c.Rand, thorough: c.Thorough(), used: map[string]bool{}, dirs: map[string]bool{}}
	for _, p := range append(append([]string{"LICENSE"}, c08Docs...), c08NonModule...) {
		g.take(p)
	}
	n := 1 + c.Rand.IntN(3)
	var mods []*c08RemoteMod
	backends := []c08Backend{c08Backends[0], c08Backends[1], c08Backends[2], c08Backends[4], c08Backends[5], c08Backends[6], c08Backends[7], c08Backends[8], c08Backends[10]}
	for i := 0; i < n; i++ {
		r := &c08RemoteMod{name: fmt.Sprintf("buf.build/remote/r%d", i), commit: c08UUID(e), files: map[string][]byte{}}
		np := 1 + c.Rand.IntN(4)
		for k := 0; k < np; k++ {
			r.files[g.protoPath(c.Rand.IntN(2) == 0)] = g.bytes("proto") // any bytes
		}
		if c.Rand.IntN(2) == 0 {
			r.files["LICENSE"] = g.bytes("LICENSE")
		}
		for _, d := range c08Docs {
			if c.Rand.IntN(3) == 0 {
				r.files[d] = g.bytes(d)
			}
		}
		for k := c.Rand.IntN(3); k > 0; k-- {
			p := c08NonModule[c.Rand.IntN(len(c08NonModule))]
			r.files[p] = g.bytes(p)
		}
		nd := c.Rand.IntN(5)
		for k := 0; k < nd; k++ {
			switch {
			case len(mods) > 0 && c.Rand.IntN(2) == 0:
				d := mods[c.Rand.IntN(len(mods))]
				r.deps = append(r.deps, c08PinnedDep{name: d.name, commit: d.commit, digest: d.modelB5()})
			case len(r.deps) > 0 && c.Rand.IntN(5) == 0: // same digest under another name
				r.deps = append(r.deps, c08PinnedDep{name: fmt.Sprintf("buf.build/twin/t%d", k), commit: c08UUID(e), digest: r.deps[0].digest})
			default:
				r.deps = append(r.deps, c08PinnedDep{name: fmt.Sprintf("buf.build/phantom/p%d-%d", i, k), commit: c08UUID(e), digest: e.randomDigest()})
			}
		}
		// unique dependency names
		seen := map[string]bool{}
		var deps []c08PinnedDep
		for _, d := range r.deps {
			if !seen[d.name] {
				seen[d.name] = true
				deps = append(deps, d)
			}
		}
		r.deps = deps
		c.Rand.Shuffle(len(r.deps), func(a, b int) { r.deps[a], r.deps[b] = r.deps[b], r.deps[a] })
		mods = append(mods, r)
	}
	for _, r := range mods {
		want := r.modelB5()
		b := backends[c.Rand.IntN(len(backends))]
		c.Eval(2)
		d5, d4, err := e.remoteDigest(want, r, b)
		desc := func(x *c08RemoteMod) string {
			var deps []string
			for _, d := range x.deps {
				deps = append(deps, c08Short(d.digest))
			}
			var fl []string
			for _, p := range c08SortedPaths(x.files) {
				fl = append(fl, fmt.Sprintf("%q[%dB]", p, len(x.files[p])))
			}
			return fmt.Sprintf("files=%v deps=%v", fl, deps)
		}
		if err != nil {
			var mm *bufmodule.DigestMismatchError
			if errors.As(err, &mm) {
				c.Violation("b5-differs-from-construction", "remote-pinned backend="+b.name,
					fmt.Sprintf("remote module pinned to the model's digest %s fails tamper proofing: actual %v; %s", want, mm.ActualDigest, desc(r)), nil)
			} else {
				c.Violation("digest-error", "remote-pinned backend="+b.name, fmt.Sprintf("remote module with pinned dependencies failed: %v; %s", err, desc(r)), nil)
			}
			continue
		}
		if d5 != want {
			c.Violation("b5-differs-from-construction", "remote-pinned backend="+b.name, fmt.Sprintf("Digest(b5)=%s, construction=%s; %s", d5, want, desc(r)), nil)
		}
		c.Count("remote_pinned_digests", 1)
		c.Distinct("remote_dep_count", fmt.Sprint(len(r.deps)))
		if len(r.deps) > 0 {
			// the same commit with its dependencies pinned the legacy way (b4 digests, as in a v1 buf.lock): the b5
			// digests come from the commit service, and the module's b5 digest is the same value
			commits := &c08Commits{byCommit: map[uuid.UUID]c08PinnedDep{}}
			for _, d := range r.deps {
				commits.byCommit[d.commit] = d
			}
			prov := &c08Provider{e: e, backend: b, served: map[string]*c08RemoteMod{r.name: r}, depsB4: true}
			// such a commit is itself pinned by its b4 digest (which covers its own files only)
			key, kerr := c08Key(r.name, r.commit, model.B4(r.files, nil, nil))
			var l5 string
			var lerr error
			if kerr == nil {
				var ms bufmodule.ModuleSet
				ms, lerr = bufmodule.NewModuleSetBuilder(e.ctx, slogext.NopLogger, prov, commits).AddRemoteModule(key, true).Build()
				if lerr == nil {
					fn, _ := bufparse.ParseFullName(r.name)
					l5, _, lerr = c08ReadDigests(ms.GetModuleForFullName(fn))
				}
			}
			c.Eval(1)
			switch {
			case kerr != nil || lerr != nil:
				c.Violation("digest-error", "remote-pinned-by-b4-dependency-keys backend="+b.name, fmt.Sprintf("remote module whose dependencies are pinned with b4 digests failed: %v %v; %s", kerr, lerr, desc(r)), nil)
			case l5 != want:
				c.Violation("b5-differs-from-construction", "remote-pinned-by-b4-dependency-keys backend="+b.name, fmt.Sprintf("Digest(b5)=%s with b4-pinned dependencies, %s with b5-pinned ones; %s", l5, want, desc(r)), nil)
			default:
				c.Count("remote_b4_pinned_dependencies", 1)
			}
		}
		// tampering
		order := c.Rand.Perm(len(c08Tampers))
		budget := c.Pick(5, 9)
		for _, ti := range order {
			if budget == 0 {
				break
			}
			t := c08Tampers[ti]
			tr := r.clone()
			if !t.apply(e, tr) {
				continue
			}
			budget--
			tb := backends[c.Rand.IntN(len(backends))]
			c.Eval(2)
			pinned := want
			t5, t4, err := e.remoteDigest(pinned, tr, tb)
			key := "remote-tamper=" + t.kind
			c.Distinct("remote_tamper", t.kind)
			if t.module {
				var mm *bufmodule.DigestMismatchError
				switch {
				case err == nil:
					c.Violation("digest-insensitive", key, fmt.Sprintf("served content differs from the pinned digest in a module file / dependency digest, yet Digest(b5)=%s was returned without a mismatch\npinned: %s\nserved: %s", t5, desc(r), desc(tr)), nil)
				case !errors.As(err, &mm):
					c.Violation("digest-error", key, fmt.Sprintf("expected a DigestMismatchError, got %v\nserved: %s", err, desc(tr)), nil)
				case mm.ActualDigest == nil || mm.ActualDigest.String() != tr.modelB5():
					c.Violation("b5-differs-from-construction", key, fmt.Sprintf("mismatch error reports actual digest %v, construction over the served content gives %s\nserved: %s", mm.ActualDigest, tr.modelB5(), desc(tr)), nil)
				default:
					c.Count("remote_tamper_detected", 1)
				}
			} else {
				if err != nil {
					c.Violation("digest-oversensitive", key, fmt.Sprintf("a change outside the module files / dependency digests made the remote module fail: %v\npinned: %s\nserved: %s", err, desc(r), desc(tr)), nil)
				} else if t5 != d5 || t4 != d4 {
					c.Violation("digest-oversensitive", key, fmt.Sprintf("b5 %s -> %s, b4 %s -> %s\npinned: %s\nserved: %s", d5, t5, d4, t4, desc(r), desc(tr)), nil)
				} else {
					c.Count("remote_nonmodule_tamper_ignored", 1)
				}
			}
		}
	}
}
