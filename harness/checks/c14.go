package checks

import (
	"bytes"
	"context"
	"fmt"
	"io"
	"os"
	"path"
	"path/filepath"
	"sort"
	"strings"

	"github.com/bufbuild/buf/private/pkg/storage"
	"github.com/bufbuild/buf/private/pkg/storage/storagearchive"
	"github.com/bufbuild/buf/private/pkg/storage/storagemem"
	"github.com/bufbuild/buf/private/pkg/storage/storageos"
	"github.com/bufbuild/verifharness/core"
	"github.com/bufbuild/verifharness/model"
)

// C14 — every bucket implementation and combinator behaves as one path→bytes map.
//
// Reference model: map[cleanPath][]byte (plus a "duplicate" mark for union views). Random
// operation sequences are applied to real base buckets and to the model; after every step a
// sample of reads, and at the end an exhaustive sweep of reads, is compared on the bases and on
// derived views (filter / map / multi / overlay / strip / tar+zip round trip / random
// compositions) against the correspondingly transformed model.

// c14Pool is prefix-free: no path is a path-wise ancestor of another; many are string prefixes
// of siblings.
var c14Pool = []string{
	"a/b", "a/bc", "a/b.c", "ab", "a.b/x", "a/c/d", "a/c/de", "a/cd", "b", "b.proto", "c/d/e/f.proto", "c/d/e.f", "c/d/ef",
	"x y/z", "x y/z z.proto", "ü/é.proto", "a/c/d.proto", "a/c.proto", "c/d/e/g", "d/x.proto", "d/x.protox", "d/xx.proto",
	"LICENSE", "a/LICENSE", "buf.yaml", "d.proto", "e/e/e/e/e/e.proto",
}

var c14Dirs = func() []string {
	seen := map[string]bool{}
	for _, p := range c14Pool {
		for d := path.Dir(p); d != "."; d = path.Dir(d) {
			seen[d] = true
		}
	}
	var out []string
	for d := range seen {
		out = append(out, d)
	}
	sort.Strings(out)
	return out
}()

// fresh names that are never put and are not ancestors of pool paths
var c14Fresh = []string{"nope", "a/nope", "a/b.", "a/bcd", "c/d/e/f.prot", "zz/zz", "a/c/d.protoo", "x y/zz"}

type vmEntry struct {
	data []byte
	dup  bool // present in two members of a union
}
type viewModel map[string]vmEntry

type c14View struct {
	name string
	rb   storage.ReadBucket
	vm   viewModel
	// mayDupErr: a union below this view holds a duplicated path that this view filters or maps
	// away. The union reports duplicates while walking its own prefix, so a walk through this
	// view may legitimately fail with a multiple-locations error ("reports, rather than hides").
	mayDupErr bool
	// occ: every object path of the underlying buckets in this view's coordinates, including the
	// ones a filter hides. Reads are kept inside the prefix-free domain with it: a path that
	// descends through an object, or names a directory of objects, is not generated.
	occ map[string]bool
}

func (v c14View) occupied() map[string]bool {
	if v.occ != nil {
		return v.occ
	}
	o := map[string]bool{}
	for p := range v.vm {
		o[p] = true
	}
	return o
}

// c14Through reports whether p descends through an object of the view (a proper ancestor of p is an object).
func c14Through(occ map[string]bool, p string) bool {
	for d := path.Dir(p); d != "." && d != "/"; d = path.Dir(d) {
		if occ[d] {
			return true
		}
	}
	return false
}

// c14IsDir reports whether p is a proper ancestor of an object of the view.
func c14IsDir(occ map[string]bool, p string) bool {
	for q := range occ {
		if q != p && model.ContainsPath(p, q) {
			return true
		}
	}
	return false
}

func c14Spelling(c *core.C, p string) string {
	switch c.Rand.IntN(8) {
	case 0:
		return "./" + p
	case 1:
		return strings.Replace(p, "/", "//", 1)
	case 2:
		return strings.Replace(p, "/", "/./", 1)
	case 3:
		return "q/../" + p
	case 4:
		if i := strings.LastIndex(p, "/"); i >= 0 {
			return p[:i] + "/zz/.." + p[i:]
		}
		return p
	case 5:
		return p + "/"
	case 6:
		return p + "/."
	}
	return p
}

type c14Base struct {
	name  string
	rw    storage.ReadWriteBucket
	model map[string][]byte
}

func c14Content(c *core.C, uniq *int) []byte {
	*uniq++
	switch c.Rand.IntN(12) {
	case 0:
		return []byte{}
	case 1:
		if c.Rand.IntN(4) == 0 {
			b := bytes.Repeat([]byte{byte(*uniq)}, 1<<20)
			copy(b, fmt.Sprintf("big-%d-%d", c.Idx, *uniq))
			return b
		}
		return bytes.Repeat([]byte("xy"), 3000)
	default:
		return []byte(fmt.Sprintf("content-%d-%d\n", c.Idx, *uniq))
	}
}

func c14NewBases(c *core.C, dir string) ([]*c14Base, error) {
	os.RemoveAll(dir)
	if err := os.MkdirAll(filepath.Join(dir, "d1"), 0o755); err != nil {
		return nil, err
	}
	if err := os.MkdirAll(filepath.Join(dir, "d2", "p", "q"), 0o755); err != nil {
		return nil, err
	}
	prov := storageos.NewProvider()
	provSym := storageos.NewProvider(storageos.ProviderWithSymlinks())
	d1, err := prov.NewReadWriteBucket(filepath.Join(dir, "d1"))
	if err != nil {
		return nil, err
	}
	d2, err := provSym.NewReadWriteBucket(filepath.Join(dir, "d2"), storageos.ReadWriteBucketWithSymlinksIfSupported())
	if err != nil {
		return nil, err
	}
	memParent := storagemem.NewReadWriteBucket()
	// objects outside the mapped prefix must never show through
	storage.PutPath(context.Background(), memParent, "pq/a/b", []byte("outside"))
	storage.PutPath(context.Background(), memParent, "p/qq/a/b", []byte("outside"))
	storage.PutPath(context.Background(), memParent, "a/b", []byte("outside"))
	all := []*c14Base{
		{name: "disk", rw: d1},
		{name: "mem", rw: storagemem.NewReadWriteBucket()},
		{name: "map(disk+symlinks,p/q)", rw: storage.MapReadWriteBucket(d2, storage.MapOnPrefix("p/q"))},
		{name: "map(mem,p/q)", rw: storage.MapReadWriteBucket(memParent, storage.MapOnPrefix("p/q"))},
		{name: "mapchain(mem,p,q)", rw: storage.MapReadWriteBucket(storagemem.NewReadWriteBucket(), storage.MapOnPrefix("p"), storage.MapOnPrefix("q"))},
		{name: "map(map(mem,p),q)", rw: storage.MapReadWriteBucket(storage.MapReadWriteBucket(storagemem.NewReadWriteBucket(), storage.MapOnPrefix("p")), storage.MapOnPrefix("q"))},
	}
	c.Rand.Shuffle(len(all), func(i, j int) { all[i], all[j] = all[j], all[i] })
	n := 2 + c.Rand.IntN(2)
	bases := all[:n]
	for _, b := range bases {
		b.model = map[string][]byte{}
	}
	return bases, nil
}

func (b *c14Base) view() c14View {
	vm := viewModel{}
	for p, d := range b.model {
		vm[p] = vmEntry{data: d}
	}
	return c14View{name: b.name, rb: b.rw, vm: vm}
}

// ---- model-side matchers -------------------------------------------------------------

type c14Matcher struct {
	name string
	real storage.Matcher
	fn   func(p string) bool
}

func c14RandMatcher(c *core.C, depth int) c14Matcher {
	k := c.Rand.IntN(9)
	if depth >= 2 && k >= 5 {
		k = c.Rand.IntN(5)
	}
	switch k {
	case 0:
		ext := []string{".proto", ".c", "", ".f", ".protox"}[c.Rand.IntN(5)]
		return c14Matcher{"ext(" + ext + ")", storage.MatchPathExt(ext), func(p string) bool { return path.Ext(p) == ext }}
	case 1:
		base := []string{"b", "LICENSE", "x.proto", "d", "z"}[c.Rand.IntN(5)]
		return c14Matcher{"base(" + base + ")", storage.MatchPathBase(base), func(p string) bool { return path.Base(p) == base }}
	case 2:
		eq := c14Pool[c.Rand.IntN(len(c14Pool))]
		return c14Matcher{"equal(" + eq + ")", storage.MatchPathEqual(eq), func(p string) bool { return p == eq }}
	case 3:
		var d string
		if c.Rand.IntN(3) == 0 {
			d = c14Pool[c.Rand.IntN(len(c14Pool))]
		} else {
			d = c14Dirs[c.Rand.IntN(len(c14Dirs))]
		}
		return c14Matcher{"equalOrContained(" + d + ")", storage.MatchPathEqualOrContained(d), func(p string) bool { return model.ContainsPath(d, p) }}
	case 4:
		d := c14Dirs[c.Rand.IntN(len(c14Dirs))]
		if c.Rand.IntN(4) == 0 {
			d = c14Pool[c.Rand.IntN(len(c14Pool))]
		}
		return c14Matcher{"contained(" + d + ")", storage.MatchPathContained(d), func(p string) bool { return p != d && model.ContainsPath(d, p) }}
	case 5, 6:
		a, b := c14RandMatcher(c, depth+1), c14RandMatcher(c, depth+1)
		if k == 5 {
			return c14Matcher{"or(" + a.name + "," + b.name + ")", storage.MatchOr(a.real, b.real), func(p string) bool { return a.fn(p) || b.fn(p) }}
		}
		return c14Matcher{"and(" + a.name + "," + b.name + ")", storage.MatchAnd(a.real, b.real), func(p string) bool { return a.fn(p) && b.fn(p) }}
	default:
		a := c14RandMatcher(c, depth+1)
		return c14Matcher{"not(" + a.name + ")", storage.MatchNot(a.real), func(p string) bool { return !a.fn(p) }}
	}
}

// c14Derive builds a random derived read view over the given views.
func c14Derive(c *core.C, views []c14View, depth int) c14View {
	v := views[c.Rand.IntN(len(views))]
	if depth == 0 {
		return v
	}
	switch c.Rand.IntN(6) {
	case 0: // filter
		in := c14Derive(c, views, depth-1)
		nm := 1 + c.Rand.IntN(2)
		var reals []storage.Matcher
		var fns []func(string) bool
		var names []string
		for i := 0; i < nm; i++ {
			m := c14RandMatcher(c, 0)
			reals = append(reals, m.real)
			fns = append(fns, m.fn)
			names = append(names, m.name)
		}
		vm := viewModel{}
		may := in.mayDupErr
		for p, e := range in.vm {
			ok := true
			for _, fn := range fns {
				ok = ok && fn(p)
			}
			if ok {
				vm[p] = e
			} else if e.dup {
				may = true
			}
		}
		return c14View{name: "filter(" + in.name + "," + strings.Join(names, "&") + ")", rb: storage.FilterReadBucket(in.rb, reals...), vm: vm, mayDupErr: may, occ: in.occupied()}
	case 1: // map on a directory prefix
		in := c14Derive(c, views, depth-1)
		// the prefix must be a directory (or absent) in the coordinates of the input view:
		// mapping a bucket onto a path that is itself an object is outside the domain
		dirSet := map[string]bool{"nope": true}
		for p := range in.vm {
			for d := path.Dir(p); d != "."; d = path.Dir(d) {
				dirSet[d] = true
			}
		}
		var dirs []string
		inOcc := in.occupied()
		for d := range dirSet {
			if !inOcc[d] && !c14Through(inOcc, d) {
				dirs = append(dirs, d)
			}
		}
		sort.Strings(dirs)
		d := dirs[c.Rand.IntN(len(dirs))]
		vm := viewModel{}
		may := in.mayDupErr
		for p, e := range in.vm {
			if p != d && model.ContainsPath(d, p) {
				vm[strings.TrimPrefix(p, d+"/")] = e
			}
		}
		occ := map[string]bool{}
		for p := range in.occupied() {
			if p != d && model.ContainsPath(d, p) {
				occ[strings.TrimPrefix(p, d+"/")] = true
			}
		}
		return c14View{name: "map(" + in.name + "," + d + ")", rb: storage.MapReadBucket(in.rb, storage.MapOnPrefix(d)), vm: vm, mayDupErr: may, occ: occ}
	case 2: // multi
		a, b := c14Derive(c, views, depth-1), c14Derive(c, views, depth-1)
		vm := viewModel{}
		for p, e := range a.vm {
			vm[p] = e
		}
		for p, e := range b.vm {
			if _, ok := vm[p]; ok {
				vm[p] = vmEntry{dup: true}
			} else {
				vm[p] = e
			}
		}
		return c14View{name: "multi(" + a.name + "," + b.name + ")", rb: storage.MultiReadBucket(a.rb, b.rb), vm: vm, mayDupErr: a.mayDupErr || b.mayDupErr, occ: unionOcc(a, b)}
	case 3: // overlay
		a, b := c14Derive(c, views, depth-1), c14Derive(c, views, depth-1)
		vm := viewModel{}
		for p, e := range b.vm {
			vm[p] = e
		}
		for p, e := range a.vm {
			vm[p] = e
		}
		return c14View{name: "overlay(" + a.name + "," + b.name + ")", rb: storage.OverlayReadBucket(a.rb, b.rb), vm: vm, mayDupErr: a.mayDupErr || b.mayDupErr || vmHasDup(a.vm) || vmHasDup(b.vm), occ: unionOcc(a, b)}
	case 4: // strip external paths
		in := c14Derive(c, views, depth-1)
		return c14View{name: "strip(" + in.name + ")", rb: storage.StripReadBucketExternalPaths(in.rb), vm: in.vm, mayDupErr: in.mayDupErr, occ: in.occupied()}
	default:
		return c14Derive(c, views, depth-1)
	}
}

func unionOcc(a, b c14View) map[string]bool {
	o := map[string]bool{}
	for p := range a.occupied() {
		o[p] = true
	}
	for p := range b.occupied() {
		o[p] = true
	}
	return o
}

func vmHasDup(vm viewModel) bool {
	for _, e := range vm {
		if e.dup {
			return true
		}
	}
	return false
}

// ---- verification ------------------------------------------------------------------------

func c14CheckPath(ctx context.Context, c *core.C, v c14View, p string, seq *[]string) {
	sp := c14Spelling(c, p)
	key := fmt.Sprintf("view=%s path=%q", v.name, sp)
	e, ok := v.vm[p]
	c.Eval(3)
	// get
	obj, err := v.rb.Get(ctx, sp)
	switch {
	case ok && e.dup:
		if err == nil {
			obj.Close()
			c.Violation("union-hides-duplicate", key, fmt.Sprintf("get(%q) on %s succeeded although the path is present in two members; ops=%v", sp, v.name, *seq), nil)
		} else if !storage.IsExistsMultipleLocations(err) {
			c.Violation("union-duplicate-wrong-error", key, fmt.Sprintf("get(%q) on %s: expected multiple-locations error, got %v", sp, v.name, err), nil)
		}
		c.Count("dup_reads", 1)
	case ok:
		if err != nil {
			c.Violation("get-missing", key, fmt.Sprintf("get(%q) on %s: model has %d bytes, got error %v; ops=%v", sp, v.name, len(e.data), err, *seq), nil)
		} else {
			data, rerr := io.ReadAll(obj)
			cerr := obj.Close()
			if rerr != nil || cerr != nil || !bytes.Equal(data, e.data) {
				c.Violation("get-wrong-content", key, fmt.Sprintf("get(%q) on %s: model %q(%d bytes) got %q(%d bytes) rerr=%v cerr=%v; ops=%v", sp, v.name, clip(e.data), len(e.data), clip(data), len(data), rerr, cerr, *seq), nil)
			}
			if obj.Path() != p {
				c.Violation("object-path", key, fmt.Sprintf("get(%q) on %s: object path %q, want %q", sp, v.name, obj.Path(), p), nil)
			}
		}
		c.Count("hit_reads", 1)
	default:
		if err == nil {
			data, _ := io.ReadAll(obj)
			obj.Close()
			c.Violation("get-phantom", key, fmt.Sprintf("get(%q) on %s returned %q but the model has no such object; ops=%v", sp, v.name, clip(data), *seq), nil)
		} else if !storage.IsNotExist(err) {
			c.Violation("get-wrong-error", key, fmt.Sprintf("get(%q) on %s: expected not-exist, got %v", sp, v.name, err), nil)
		}
		c.Count("miss_reads", 1)
	}
	// stat
	oi, err := v.rb.Stat(ctx, sp)
	switch {
	case ok && e.dup:
		if err == nil || !storage.IsExistsMultipleLocations(err) {
			c.Violation("union-hides-duplicate", key+" op=stat", fmt.Sprintf("stat(%q) on %s: expected multiple-locations error, got %v", sp, v.name, err), nil)
		}
	case ok:
		if err != nil {
			c.Violation("stat-missing", key, fmt.Sprintf("stat(%q) on %s: %v; ops=%v", sp, v.name, err, *seq), nil)
		} else if oi.Path() != p {
			c.Violation("object-path", key+" op=stat", fmt.Sprintf("stat(%q) on %s: object path %q, want %q", sp, v.name, oi.Path(), p), nil)
		}
	default:
		if err == nil {
			c.Violation("stat-phantom", key, fmt.Sprintf("stat(%q) on %s succeeded but the model has no such object; ops=%v", sp, v.name, *seq), nil)
		} else if !storage.IsNotExist(err) {
			c.Violation("stat-wrong-error", key, fmt.Sprintf("stat(%q) on %s: expected not-exist, got %v", sp, v.name, err), nil)
		}
	}
	// exists
	ex, err := storage.Exists(ctx, v.rb, sp)
	if ok && e.dup {
		if err == nil {
			c.Violation("union-hides-duplicate", key+" op=exists", fmt.Sprintf("exists(%q) on %s = %v without error for a duplicated path", sp, v.name, ex), nil)
		}
	} else if err != nil || ex != ok {
		c.Violation("exists-wrong", key, fmt.Sprintf("exists(%q) on %s = %v,%v; model %v; ops=%v", sp, v.name, ex, err, ok, *seq), nil)
	}
}

func clip(b []byte) string {
	if len(b) > 40 {
		return string(b[:40]) + "…"
	}
	return string(b)
}

func c14CheckWalk(ctx context.Context, c *core.C, v c14View, prefix string, seq *[]string) {
	sp := prefix
	if prefix != "" && prefix != "." {
		sp = c14Spelling(c, prefix)
	}
	cleanPrefix := prefix
	if cleanPrefix == "" {
		cleanPrefix = "."
	}
	key := fmt.Sprintf("view=%s walk=%q", v.name, sp)
	var want []string
	dup := false
	for p, e := range v.vm {
		if model.ContainsPath(cleanPrefix, p) {
			want = append(want, p)
			dup = dup || e.dup
		}
	}
	sort.Strings(want)
	var got []string
	err := v.rb.Walk(ctx, sp, func(oi storage.ObjectInfo) error {
		got = append(got, oi.Path())
		return nil
	})
	c.Eval(2)
	c.Count("walks", 1)
	if len(want) > 0 {
		c.Count("walks_nonempty", 1)
	}
	if dup {
		c.Count("dup_walks", 1)
		if err == nil {
			c.Violation("union-hides-duplicate", key, fmt.Sprintf("walk(%q) on %s succeeded although a path under it is present in two members; ops=%v", sp, v.name, *seq), nil)
		} else if !storage.IsExistsMultipleLocations(err) {
			c.Violation("union-duplicate-wrong-error", key, fmt.Sprintf("walk(%q) on %s: expected multiple-locations error, got %v", sp, v.name, err), nil)
		}
		return
	}
	if err != nil && v.mayDupErr && storage.IsExistsMultipleLocations(err) {
		c.Count("walks_hidden_dup_reported", 1)
		return
	}
	if err != nil {
		c.Violation("walk-error", key, fmt.Sprintf("walk(%q) on %s: %v; ops=%v", sp, v.name, err, *seq), nil)
		return
	}
	sort.Strings(got)
	if strings.Join(got, "\x00") != strings.Join(want, "\x00") {
		c.Violation("walk-set", key, fmt.Sprintf("walk(%q) on %s visited %q, model %q; ops=%v", sp, v.name, got, want, *seq), nil)
	}
	empty, err := storage.IsEmpty(ctx, v.rb, sp)
	if err != nil || empty != (len(want) == 0) {
		c.Violation("isempty-wrong", key, fmt.Sprintf("isEmpty(%q) on %s = %v,%v; model has %d objects; ops=%v", sp, v.name, empty, err, len(want), *seq), nil)
	}
}

func c14WalkPrefixes(c *core.C, n int) []string {
	cands := []string{"", ".", "nope", "a/b", "a/c", "a", "c/d", "c/d/e", "d/x.proto", "a/c/d"}
	cands = append(cands, c14Dirs...)
	cands = append(cands, c14Pool...)
	cands = append(cands, c14Fresh...)
	if n <= 0 || n >= len(cands) {
		return cands
	}
	out := []string{"", "."}
	for len(out) < n {
		out = append(out, cands[c.Rand.IntN(len(cands))])
	}
	return out
}

func c14Sweep(ctx context.Context, c *core.C, views []c14View, full bool, seq *[]string) {
	for _, v := range views {
		var paths []string
		if full {
			paths = append(append([]string{}, c14Pool...), c14Fresh...)
			// view-specific paths (mapped views have stripped names)
			for p := range v.vm {
				paths = append(paths, p)
			}
		} else {
			for i := 0; i < 3; i++ {
				paths = append(paths, c14Pool[c.Rand.IntN(len(c14Pool))])
			}
			paths = append(paths, c14Fresh[c.Rand.IntN(len(c14Fresh))])
		}
		occ := v.occupied()
		for _, p := range paths {
			if c14Through(occ, p) || c14IsDir(occ, p) {
				c.Count("reads_skipped_out_of_domain", 1)
				continue
			}
			c14CheckPath(ctx, c, v, p, seq)
		}
		n := 3
		if full {
			n = 0
		}
		for _, pre := range c14WalkPrefixes(c, n) {
			if c14Through(occ, pre) {
				c.Count("reads_skipped_out_of_domain", 1)
				continue
			}
			c14CheckWalk(ctx, c, v, pre, seq)
		}
		if full {
			// directory prefixes specific to the view
			seen := map[string]bool{}
			for p := range v.vm {
				for d := path.Dir(p); d != "."; d = path.Dir(d) {
					if !seen[d] && !c14Through(occ, d) && !occ[d] {
						seen[d] = true
						c14CheckWalk(ctx, c, v, d, seq)
					}
				}
			}
		}
	}
}

func c14Run(c *core.C, idx int) {
	ctx := context.Background()
	dir := filepath.Join(c.Tmp, "c14")
	bases, err := c14NewBases(c, dir)
	if err != nil {
		c.Note("setup: %v", err)
		return
	}
	defer os.RemoveAll(dir)
	steps := 5 + c.Rand.IntN(56)
	uniq := 0
	var seq []string
	opKinds := map[string]bool{}
	for s := 0; s < steps; s++ {
		b := bases[c.Rand.IntN(len(bases))]
		p := c14Pool[c.Rand.IntN(len(c14Pool))]
		switch op := c.Rand.IntN(10); {
		case op < 5: // put
			content := c14Content(c, &uniq)
			atomic := c.Rand.IntN(2) == 0
			sp := c14Spelling(c, p)
			if strings.HasSuffix(sp, "/") || strings.HasSuffix(sp, "/.") {
				sp = p // a trailing separator names a directory for the OS; keep puts to file spellings
			}
			var opts []storage.PutOption
			if atomic {
				opts = append(opts, storage.PutWithAtomic())
			}
			seq = append(seq, fmt.Sprintf("%s.put(%q,%dB,atomic=%v)", b.name, sp, len(content), atomic))
			var perr error
			switch c.Rand.IntN(3) {
			case 0:
				perr = storage.PutPath(ctx, b.rw, sp, content, opts...)
			case 1:
				// chunked writes
				var wo storage.WriteObjectCloser
				wo, perr = b.rw.Put(ctx, sp, opts...)
				if perr == nil {
					for off := 0; off < len(content) && perr == nil; off += 1000 {
						end := min(off+1000, len(content))
						_, perr = wo.Write(content[off:end])
					}
					if cerr := wo.Close(); perr == nil {
						perr = cerr
					}
				}
			default:
				src, _ := storagemem.NewReadBucket(map[string][]byte{"s": content})
				var copts []storage.CopyOption
				if atomic {
					copts = append(copts, storage.CopyWithAtomic())
				}
				perr = storage.CopyPath(ctx, src, "s", b.rw, sp, copts...)
			}
			c.Eval(1)
			if perr != nil {
				c.Violation("put-failed", fmt.Sprintf("base=%s path=%q", b.name, sp), fmt.Sprintf("put failed on a valid path: %v; ops=%v", perr, seq), nil)
			} else {
				b.model[p] = content
			}
			opKinds["put"] = true
			if len(content) >= 1<<20 {
				opKinds["put-1MiB"] = true
			}
			if len(content) == 0 {
				opKinds["put-empty"] = true
			}
		case op < 7: // delete
			if c.Rand.IntN(5) == 0 {
				p = c14Fresh[c.Rand.IntN(len(c14Fresh))]
			}
			sp := c14Spelling(c, p)
			seq = append(seq, fmt.Sprintf("%s.delete(%q)", b.name, sp))
			derr := b.rw.Delete(ctx, sp)
			c.Eval(1)
			_, had := b.model[p]
			if had {
				if derr != nil {
					c.Violation("delete-failed", fmt.Sprintf("base=%s path=%q", b.name, sp), fmt.Sprintf("delete of an existing object failed: %v; ops=%v", derr, seq), nil)
				}
				delete(b.model, p)
				opKinds["delete-existing"] = true
			} else {
				if derr == nil || !storage.IsNotExist(derr) {
					c.Violation("delete-missing-no-error", fmt.Sprintf("base=%s path=%q", b.name, sp), fmt.Sprintf("delete of a missing object returned %v, want not-exist; ops=%v", derr, seq), nil)
				}
				opKinds["delete-missing"] = true
			}
		case op < 8: // delete-all
			cands := append(append([]string{"", ".", "nope", p}, c14Dirs...), c14Fresh...)
			pre := cands[c.Rand.IntN(len(cands))]
			if c.Rand.IntN(8) != 0 && (pre == "" || pre == ".") {
				pre = c14Dirs[c.Rand.IntN(len(c14Dirs))]
			}
			sp := pre
			if pre != "" && pre != "." {
				sp = c14Spelling(c, pre)
			}
			seq = append(seq, fmt.Sprintf("%s.deleteAll(%q)", b.name, sp))
			derr := b.rw.DeleteAll(ctx, sp)
			c.Eval(1)
			if derr != nil {
				c.Violation("deleteall-failed", fmt.Sprintf("base=%s prefix=%q", b.name, sp), fmt.Sprintf("deleteAll failed: %v; ops=%v", derr, seq), nil)
			}
			cp := pre
			if cp == "" {
				cp = "."
			}
			for q := range b.model {
				if model.ContainsPath(cp, q) {
					delete(b.model, q)
				}
			}
			opKinds["deleteall"] = true
		default: // copy between kinds: whole-bucket copy of one base into a mapped view of mem, checked at once
			src := b.view()
			dst := storagemem.NewReadWriteBucket()
			var copts []storage.CopyOption
			if c.Rand.IntN(2) == 0 {
				copts = append(copts, storage.CopyWithAtomic())
			}
			n, cerr := storage.Copy(ctx, src.rb, dst, copts...)
			c.Eval(1)
			if cerr != nil || n != len(src.vm) {
				c.Violation("copy-count", fmt.Sprintf("base=%s", b.name), fmt.Sprintf("Copy returned (%d,%v) for %d objects; ops=%v", n, cerr, len(src.vm), seq), nil)
			}
			c14Sweep(ctx, c, []c14View{{name: "copy-of(" + b.name + ")", rb: dst, vm: src.vm}}, true, &seq)
			opKinds["copy"] = true
		}
		// Now and then: a put onto a path that was a directory before and holds nothing any more. The map has no
		// directories, so the put may succeed; a disk bucket still has the empty directory and may refuse. Either
		// way the bucket must afterwards hold exactly the model (no temporary object of a refused atomic put).
		if c.Rand.IntN(8) == 0 {
			var empties []string
			for _, d := range c14Dirs {
				used := false
				for q := range b.model {
					if model.ContainsPath(d, q) || model.ContainsPath(q, d) {
						used = true
					}
				}
				if !used {
					empties = append(empties, d)
				}
			}
			if len(empties) > 0 {
				d := empties[c.Rand.IntN(len(empties))]
				content := c14Content(c, &uniq)
				var opts []storage.PutOption
				atomic := c.Rand.IntN(3) != 0
				if atomic {
					opts = append(opts, storage.PutWithAtomic())
				}
				perr := storage.PutPath(ctx, b.rw, d, content, opts...)
				seq = append(seq, fmt.Sprintf("%s.put-on-former-directory(%q,atomic=%v)->%v", b.name, d, atomic, perr != nil))
				c.Eval(1)
				if perr == nil {
					b.model[d] = content
					c.Count("puts_on_former_directory_accepted", 1)
				} else {
					c.Count("puts_on_former_directory_refused", 1)
				}
				c14Sweep(ctx, c, []c14View{b.view()}, true, &seq)
				if perr == nil {
					if derr := b.rw.Delete(ctx, d); derr != nil {
						c.Violation("delete-failed", fmt.Sprintf("base=%s path=%q", b.name, d), fmt.Sprintf("delete of an existing object failed: %v; ops=%v", derr, seq), nil)
					}
					delete(b.model, d)
				}
				opKinds["put-on-former-directory"] = true
			}
		}
		// reads after the step on bases and two derived views
		views := make([]c14View, 0, len(bases))
		for _, bb := range bases {
			views = append(views, bb.view())
		}
		d1 := c14Derive(c, views, 1+c.Rand.IntN(3))
		c14Sweep(ctx, c, append(views, d1), false, &seq)
		c.Distinct("derived_shape", shapeOf(d1.name))
	}
	// final exhaustive sweep on bases, derived views and archive round trips
	views := make([]c14View, 0, len(bases))
	for _, bb := range bases {
		views = append(views, bb.view())
	}
	all := append([]c14View{}, views...)
	for i := 0; i < 6; i++ {
		d := c14Derive(c, views, 1+c.Rand.IntN(3))
		all = append(all, d)
		c.Distinct("derived_shape", shapeOf(d.name))
		if vmHasDup(d.vm) {
			c.Count("views_with_duplicates", 1)
		}
	}
	for _, v := range views {
		var tarBuf bytes.Buffer
		if err := storagearchive.Tar(ctx, v.rb, &tarBuf); err != nil {
			c.Violation("tar-failed", "view="+v.name, fmt.Sprintf("Tar: %v; ops=%v", err, seq), nil)
		} else {
			dst := storagemem.NewReadWriteBucket()
			if err := storagearchive.Untar(ctx, bytes.NewReader(tarBuf.Bytes()), dst); err != nil {
				c.Violation("untar-failed", "view="+v.name, fmt.Sprintf("Untar: %v; ops=%v", err, seq), nil)
			} else {
				all = append(all, c14View{name: "untar(tar(" + v.name + "))", rb: dst, vm: v.vm})
			}
		}
		var zipBuf bytes.Buffer
		if err := storagearchive.Zip(ctx, v.rb, &zipBuf, c.Rand.IntN(2) == 0); err != nil {
			c.Violation("zip-failed", "view="+v.name, fmt.Sprintf("Zip: %v; ops=%v", err, seq), nil)
		} else {
			dst := storagemem.NewReadWriteBucket()
			if err := storagearchive.Unzip(ctx, bytes.NewReader(zipBuf.Bytes()), int64(zipBuf.Len()), dst); err != nil {
				c.Violation("unzip-failed", "view="+v.name, fmt.Sprintf("Unzip: %v; ops=%v", err, seq), nil)
			} else {
				all = append(all, c14View{name: "unzip(zip(" + v.name + "))", rb: dst, vm: v.vm})
			}
		}
	}
	c14Sweep(ctx, c, all, true, &seq)
	var ks []string
	for k := range opKinds {
		ks = append(ks, k)
	}
	sort.Strings(ks)
	var bn []string
	for _, b := range bases {
		bn = append(bn, b.name)
	}
	sort.Strings(bn)
	c.Nontrivial(fmt.Sprintf("bases=%s ops=%s len=%d", strings.Join(bn, "+"), strings.Join(ks, ","), steps/10*10))
	c.Count("sequences", 1)
	c.Count("ops", steps)
	if idx < 2 {
		c.Sample(map[string]any{"bases": bn, "ops": seq[:min(len(seq), 12)], "steps": steps})
	}
}

// shapeOf abstracts a derived view name to its combinator skeleton.
func shapeOf(name string) string {
	var sb strings.Builder
	for _, tok := range []string{"filter", "map", "multi", "overlay", "strip", "disk", "mem"} {
		_ = tok
	}
	depth := 0
	word := ""
	flush := func() {
		switch word {
		case "filter", "map", "multi", "overlay", "strip", "mapchain":
			sb.WriteString(word + "(")
		}
		word = ""
	}
	for _, r := range name {
		switch {
		case r == '(':
			flush()
			depth++
		case r == ')' || r == ',':
			word = ""
		default:
			word += string(r)
		}
	}
	return sb.String()
}

func init() {
	core.Register(&core.Check{
		ID:    "C14",
		Level: "exploration",
		Rule: "PRNG-generated operation sequences (5..60 steps: put {empty, small, 6 kB, 1 MiB; atomic or not; PutPath/chunked/CopyPath}, delete existing/missing, delete-all on file/dir/''/'.'/missing prefixes, whole-bucket Copy) " +
			"over a prefix-free pool of 27 paths with sibling names that are string prefixes of each other, using random equivalent spellings; applied to 2–3 bases out of {disk, mem, map(disk+symlinks), map(mem), mapchain, map∘map}; " +
			"after each step sampled reads, at the end exhaustive get/stat/exists/walk/isEmpty on the bases, 6 random derived views (filter/map/multi/overlay/strip compositions, depth ≤3) and tar/zip round trips are compared with the map model; " +
			"a case is non-trivial/distinct per (set of bases, set of op kinds exercised, length bucket); race part: porcupine linearizability of concurrent put/delete/get histories on one memory bucket, per path",
		Assumptions: []string{
			"domain: prefix-free path sets (a path is never an ancestor directory of another), as the property states; get/stat/delete are never aimed at directories",
			"puts use file spellings (no trailing separator); all other operations use arbitrary equivalent spellings",
			"walk order is not part of the model (only the visited multiset)",
		},
		Cases: func(tier string) int {
			if tier == "thorough" {
				return 12000
			}
			return 1200
		},
		Run:       c14Run,
		RaceCases: c14RaceCases,
		RunRace:   c14RunRace,
		Required:  []string{"sequences", "hit_reads", "miss_reads", "dup_reads", "dup_walks", "walks_nonempty", "lin_histories"},
	})
}
