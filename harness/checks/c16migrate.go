package checks

import (
	"reflect"

	"encoding/json"
	"fmt"
	"github.com/bufbuild/buf/private/bufpkg/bufconfig"
	"math/rand/v2"
	"os"
	"path"
	"path/filepath"
	"sort"
	"strings"
	"sync"

	"github.com/bufbuild/verifharness/core"
	"github.com/bufbuild/verifharness/gen"
	"github.com/bufbuild/verifharness/run"
	"google.golang.org/protobuf/proto"
	"google.golang.org/protobuf/types/descriptorpb"
	"gopkg.in/yaml.v3"
)

// C16 part B — migration of v1 / v1beta1 workspaces to v2 preserves behaviour.
//
// A workspace is a list of units (one per v1/v1beta1 module directory). Two trees with the same
// configuration are written: A (the schema S, used as `--against`) and B (S with lint-dirty and
// breaking edits). For every unit, before and after `buf config migrate` (the real CLI, in-process):
//   - `buf build <dir> --exclude-imports` : exit code, set of files, descriptors (proto.Equal)
//   - `buf lint <dir> --error-format json` : exit code, set of annotations
//   - `buf breaking <dir> --against <image of the same unit of A built before migration>` : same
// plus build and lint of the whole workspace. A v1beta1 unit with several roots becomes several v2
// modules; its "after" observation is the union over those module directories (the per-root against
// images are built before migration with --path).

type c16Unit struct {
	Dir            string   // workspace-relative directory of the module ("." = workspace root)
	Version        string   // v1 | v1beta1 | "" (directory listed in buf.work.yaml without a buf.yaml)
	Roots          []string // relative to Dir; {"."} unless v1beta1 build.roots
	Mods           []*gen.Module
	Name           string
	Deps           []string
	Excludes       []string // as written in build.excludes (relative to Dir)
	Lint           map[string]any
	Breaking       map[string]any
	LegacyFileName bool // buf.mod instead of buf.yaml
	// IncludedJunk[i] is the top-level junk directory of root i that is part of the module ("" if none)
	IncludedJunk map[int]string
}

type c16Workspace struct {
	Layout   string
	WorkYAML bool
	Units    []*c16Unit
	Junk     map[string]string // workspace-relative path -> content of extra files (excluded or not)
	Features map[string]bool
	LockFile bool
}

// ---- rule tables from the real CLI ------------------------------------------------------------

type c16Rules struct {
	IDs        []string // non-deprecated rule ids
	Categories []string
	Deprecated []string // deprecated ids and categories still accepted
}

var (
	c16RulesOnce sync.Once
	c16RuleTab   map[string]*c16Rules // "lint/v1" -> rules
	c16RulesErr  string
)

func c16LoadRules(tmp string) {
	c16RulesOnce.Do(func() {
		c16RuleTab = map[string]*c16Rules{}
		env := run.BufEnv(filepath.Join(tmp, "c16home"), nil)
		for _, kind := range []string{"lint", "breaking"} {
			for _, v := range []string{"v1beta1", "v1"} {
				o := run.BufAt(tmp, env, nil, "config", "ls-"+kind+"-rules", "--version", v, "--format", "json", "--include-deprecated")
				if o.Code != 0 {
					c16RulesErr = fmt.Sprintf("ls-%s-rules %s: exit %d: %s", kind, v, o.Code, o.Stderr)
					return
				}
				rs := &c16Rules{}
				cats := map[string]bool{}
				for _, line := range strings.Split(string(o.Stdout), "\n") {
					if strings.TrimSpace(line) == "" {
						continue
					}
					var r struct {
						ID         string   `json:"id"`
						Categories []string `json:"categories"`
						Deprecated bool     `json:"deprecated"`
					}
					if json.Unmarshal([]byte(line), &r) != nil {
						continue
					}
					if r.Deprecated {
						rs.Deprecated = append(rs.Deprecated, r.ID)
					} else {
						rs.IDs = append(rs.IDs, r.ID)
					}
					for _, c := range r.Categories {
						cats[c] = true
					}
				}
				for c := range cats {
					rs.Categories = append(rs.Categories, c)
				}
				sort.Strings(rs.Categories)
				sort.Strings(rs.IDs)
				sort.Strings(rs.Deprecated)
				if kind == "lint" {
					// deprecated category aliases accepted by every version
					rs.Deprecated = append(rs.Deprecated, "DEFAULT")
				}
				c16RuleTab[kind+"/"+v] = rs
			}
		}
	})
}

// ---- schema edits -----------------------------------------------------------------------------

type c16Mutator struct {
	r    *rand.Rand
	s    *gen.Schema
	n    int
	done map[string]int
}

func (m *c16Mutator) allMessages(f *gen.File) []*gen.Message {
	var out []*gen.Message
	var walk func(ms []*gen.Message)
	walk = func(ms []*gen.Message) {
		for _, x := range ms {
			out = append(out, x)
			walk(x.Nested)
		}
	}
	walk(f.Messages)
	return out
}

func (m *c16Mutator) allEnums(f *gen.File) []*gen.Enum {
	out := append([]*gen.Enum{}, f.Enums...)
	for _, msg := range m.allMessages(f) {
		out = append(out, msg.Enums...)
	}
	return out
}

func plainField(fl *gen.Field) bool {
	return fl.Kind != "group" && fl.Kind != "map" && fl.Default == "" && len(fl.Options) == 0 && fl.JSONName == ""
}

// apply performs one random edit on a random file; returns its tag ("" if not applicable).
func (m *c16Mutator) apply() string {
	files := m.s.AllFiles()
	f := files[m.r.IntN(len(files))]
	msgs := m.allMessages(f)
	m.n++
	pickMsg := func() *gen.Message {
		if len(msgs) == 0 {
			return nil
		}
		return msgs[m.r.IntN(len(msgs))]
	}
	switch m.r.IntN(14) {
	case 0, 1: // lint: camelCase field name (also FIELD_SAME_NAME / JSON name), sometimes with a comment ignore
		msg := pickMsg()
		if msg == nil {
			return ""
		}
		fl := msg.Fields[m.r.IntN(len(msg.Fields))]
		if !plainField(fl) {
			return ""
		}
		fl.Name = fmt.Sprintf("camelName%d", m.n)
		if m.r.IntN(2) == 0 {
			fl.Comment = "buf:lint:ignore FIELD_LOWER_SNAKE_CASE\n" + fl.Comment
			return "field-camel+comment-ignore"
		}
		return "field-camel"
	case 2: // lint COMMENTS
		if msg := pickMsg(); msg != nil {
			msg.Comment = ""
			return "drop-message-comment"
		}
	case 3: // lint ENUM_VALUE_PREFIX, breaking ENUM_VALUE_SAME_NAME
		es := m.allEnums(f)
		if len(es) == 0 {
			return ""
		}
		e := es[m.r.IntN(len(es))]
		v := e.Values[len(e.Values)-1]
		if v.Number == 0 {
			return ""
		}
		v.Name = fmt.Sprintf("BAD%d_%s", m.n, v.Name)
		return "enum-value-prefix"
	case 4: // lint ENUM_ZERO_VALUE_SUFFIX (suffix configurable)
		es := m.allEnums(f)
		if len(es) == 0 {
			return ""
		}
		e := es[m.r.IntN(len(es))]
		if !strings.HasSuffix(e.Values[0].Name, "_UNSPECIFIED") {
			return ""
		}
		e.Values[0].Name = strings.TrimSuffix(e.Values[0].Name, "_UNSPECIFIED") + "_NONE"
		return "enum-zero-none"
	case 5: // lint SERVICE_SUFFIX, breaking SERVICE_NO_DELETE
		if len(f.Services) == 0 {
			return ""
		}
		sv := f.Services[0]
		sv.Name = strings.TrimSuffix(sv.Name, "Service") + fmt.Sprintf("Api%d", m.n)
		return "service-rename"
	case 6: // breaking FIELD_NO_DELETE
		msg := pickMsg()
		if msg == nil || len(msg.Fields) < 2 {
			return ""
		}
		i := m.r.IntN(len(msg.Fields))
		if msg.Fields[i].Oneof != "" || msg.Fields[i].Kind == "group" {
			return ""
		}
		msg.Fields = append(msg.Fields[:i:i], msg.Fields[i+1:]...)
		return "field-delete"
	case 7: // breaking FIELD_SAME_TYPE
		msg := pickMsg()
		if msg == nil {
			return ""
		}
		fl := msg.Fields[m.r.IntN(len(msg.Fields))]
		if !plainField(fl) || fl.Kind != "scalar" {
			return ""
		}
		if fl.Type == "int64" {
			fl.Type = "int32"
		} else {
			fl.Type = "int64"
		}
		return "field-type"
	case 8: // breaking FIELD_SAME_CARDINALITY / FIELD_SAME_LABEL
		msg := pickMsg()
		if msg == nil {
			return ""
		}
		fl := msg.Fields[m.r.IntN(len(msg.Fields))]
		if !plainField(fl) || fl.Oneof != "" || fl.Label == "repeated" {
			return ""
		}
		fl.Label = "repeated"
		return "field-repeated"
	case 9: // lint FIELD_NOT_REQUIRED (v2 only), breaking MESSAGE_SAME_REQUIRED_FIELDS
		if f.Syntax != "proto2" {
			return ""
		}
		msg := pickMsg()
		if msg == nil {
			return ""
		}
		fl := msg.Fields[m.r.IntN(len(msg.Fields))]
		if fl.Label != "optional" || fl.Kind == "group" || fl.Oneof != "" {
			return ""
		}
		fl.Label = "required"
		return "field-required"
	case 10: // breaking FIELD_SAME_DEFAULT (v2 only)
		for _, msg := range msgs {
			for _, fl := range msg.Fields {
				if fl.Default != "" && fl.Kind == "scalar" {
					switch fl.Type {
					case "bool":
						if fl.Default == "true" {
							fl.Default = "false"
						} else {
							fl.Default = "true"
						}
					case "string", "bytes":
						fl.Default = fmt.Sprintf("%q", fmt.Sprintf("changed%d", m.n))
					case "double", "float":
						fl.Default = "42.5"
					default:
						fl.Default = fmt.Sprint(7 + m.n%50)
					}
					return "default-change"
				}
			}
		}
	case 11: // breaking EXTENSION_NO_DELETE (v2 only)
		if len(f.Extends) > 0 && !strings.HasPrefix(f.Extends[0].Extendee, "google.protobuf.") {
			f.Extends = f.Extends[1:]
			return "extension-delete"
		}
	case 12: // breaking RPC_SAME_SERVER_STREAMING, lint RPC_NO_SERVER_STREAMING
		if len(f.Services) > 0 && len(f.Services[0].Methods) > 0 {
			mt := f.Services[0].Methods[0]
			mt.ServerStream = !mt.ServerStream
			return "rpc-streaming"
		}
	case 13: // breaking FILE_SAME_GO_PACKAGE, lint PACKAGE_SAME_GO_PACKAGE
		for i, o := range f.Options {
			if o.Name == "go_package" {
				f.Options[i].Value = fmt.Sprintf("%q", fmt.Sprintf("example.com/changed%d", m.n))
				return "go-package"
			}
		}
	}
	return ""
}

// ---- workspace construction -------------------------------------------------------------------

func c16PathsOfUnit(u *c16Unit) (dirs []string, files []string) {
	seen := map[string]bool{}
	for _, m := range u.Mods {
		for _, f := range m.Files {
			files = append(files, f.Path)
			d := path.Dir(f.Path)
			if !seen[d] {
				seen[d] = true
				dirs = append(dirs, d)
			}
		}
	}
	sort.Strings(dirs)
	sort.Strings(files)
	return
}

// nonNestedPick chooses up to n candidates no one of which contains another.
func c16NonNestedPick(r *rand.Rand, cands []string, n int) []string {
	var out []string
	for _, i := range r.Perm(len(cands)) {
		c := cands[i]
		ok := true
		for _, o := range out {
			if o == c || strings.HasPrefix(o+"/", c+"/") || strings.HasPrefix(c+"/", o+"/") {
				ok = false
			}
		}
		if ok {
			out = append(out, c)
		}
		if len(out) >= n {
			break
		}
	}
	sort.Strings(out)
	return out
}

func c16Pick(r *rand.Rand, xs []string, lo, hi int) []string {
	if len(xs) == 0 {
		return nil
	}
	if hi > len(xs) {
		hi = len(xs)
	}
	if lo > hi {
		lo = hi
	}
	n := lo
	if hi > lo {
		n += r.IntN(hi - lo + 1)
	}
	var out []string
	for _, i := range r.Perm(len(xs))[:n] {
		out = append(out, xs[i])
	}
	return out
}

func c16CheckConfig(r *rand.Rand, ws *c16Workspace, u *c16Unit, kind string) map[string]any {
	rules := c16RuleTab[kind+"/"+u.Version]
	sec := map[string]any{}
	dirs, files := c16PathsOfUnit(u)
	cands := append(append([]string{}, dirs...), files...)
	for _, d := range dirs {
		if p := path.Dir(d); p != "." {
			cands = append(cands, p)
		}
	}
	// `use` always names at least one large category and `except` only rule ids outside `use`, so
	// that the configured rule set is never empty (buf itself refuses such a configuration)
	var use []string
	if r.IntN(3) > 0 {
		big := []string{"MINIMAL", "BASIC", "STANDARD", "DEFAULT"}
		if kind == "breaking" {
			big = []string{"FILE", "PACKAGE", "WIRE_JSON", "WIRE"}
		}
		use = c16Pick(r, big, 1, 1)
		if r.IntN(2) == 0 {
			use = append(use, c16Pick(r, rules.Categories, 1, 1)...)
		}
		if r.IntN(2) == 0 {
			use = append(use, c16Pick(r, rules.IDs, 1, 3)...)
		}
		if r.IntN(3) == 0 {
			use = append(use, c16Pick(r, rules.Deprecated, 1, 2)...)
			ws.Features[kind+"-deprecated-id"] = true
		}
		for _, x := range use {
			if x == "DEFAULT" {
				ws.Features[kind+"-deprecated-id"] = true
			}
		}
		sec["use"] = strs(use)
	}
	if r.IntN(2) == 0 {
		ex := c16Pick(r, rules.IDs, 1, 3)
		if r.IntN(3) == 0 {
			for _, d := range c16Pick(r, rules.Deprecated, 1, 1) {
				if d != "DEFAULT" {
					ex = append(ex, d)
					ws.Features[kind+"-deprecated-id-in-except"] = true
				}
			}
		}
		var keep []string
		for _, e := range ex {
			dup := false
			for _, u := range use {
				dup = dup || u == e
			}
			if !dup {
				keep = append(keep, e)
			}
		}
		if len(keep) > 0 {
			sec["except"] = strs(keep)
		}
	}
	if r.IntN(8) == 0 {
		sec["ignore"] = []any{"."}
		ws.Features[kind+"-disabled"] = true
	} else if r.IntN(3) == 0 {
		sec["ignore"] = strs(c16NonNestedPick(r, cands, 1+r.IntN(2)))
		ws.Features[kind+"-ignore"] = true
	}
	if r.IntN(3) == 0 {
		io := map[string]any{}
		ids := append(append([]string{}, rules.IDs...), rules.Categories...)
		if kind == "lint" {
			ids = append(ids, "FIELD_LOWER_SNAKE_CASE", "ENUM_VALUE_PREFIX", "COMMENT_MESSAGE")
		} else {
			ids = append(ids, "FIELD_NO_DELETE", "FIELD_SAME_TYPE")
			ids = append(ids, rules.Deprecated...)
		}
		for _, id := range c16Pick(r, ids, 1, 3) {
			io[id] = strs(c16NonNestedPick(r, cands, 1+r.IntN(2)))
		}
		sec["ignore_only"] = io
		ws.Features[kind+"-ignore_only"] = true
	}
	if kind == "lint" {
		if r.IntN(3) == 0 {
			sec["enum_zero_value_suffix"] = "_NONE"
			ws.Features["lint-enum-suffix"] = true
		}
		if r.IntN(4) == 0 {
			sec["service_suffix"] = "Api"
		}
		if r.IntN(3) == 0 {
			sec["allow_comment_ignores"] = true
			ws.Features["lint-allow-comment-ignores"] = true
		}
		if r.IntN(5) == 0 {
			sec["rpc_allow_same_request_response"] = true
		}
	} else if r.IntN(4) == 0 {
		sec["ignore_unstable_packages"] = true
	}
	return sec
}

func c16JunkFile(k int, dirty bool) (relPath, content string) {
	pkg := fmt.Sprintf("junk%d.v1", k)
	body := "// Junk is junk.\nmessage Junk {\n  // The id.\n  string id = 1;\n}\n"
	if dirty {
		body = "message junk_lower {\n  string BadName = 1;\n}\n\nenum Color {\n  RED = 0;\n}\n"
	}
	return fmt.Sprintf("junk%d/v1/junk.proto", k), fmt.Sprintf("syntax = \"proto3\";\n\npackage %s;\n\n%s", pkg, body)
}

// c16BuildWorkspace decides layout and configuration for schema s (module list is final).
func c16BuildWorkspace(r *rand.Rand, s *gen.Schema, layout int) *c16Workspace {
	ws := &c16Workspace{Features: map[string]bool{}, Junk: map[string]string{}}
	mods := s.Modules
	newUnit := func(dir, version string, roots []string, ms ...*gen.Module) *c16Unit {
		u := &c16Unit{Dir: dir, Version: version, Roots: roots, Mods: ms}
		ws.Units = append(ws.Units, u)
		return u
	}
	switch layout % 5 {
	case 0:
		ws.Layout, ws.WorkYAML = "v1+buf.work.yaml", true
		for _, m := range mods {
			newUnit(m.Dir, "v1", []string{"."}, m)
		}
	case 1:
		ws.Layout, ws.WorkYAML = "v1beta1+buf.work.yaml", true
		if len(mods) >= 2 {
			newUnit("grp", "v1beta1", []string{"first", "second/root"}, mods[0], mods[1])
			ws.Features["multi-root"] = true
			for _, m := range mods[2:] {
				newUnit(m.Dir, "v1beta1", []string{"src"}, m)
				ws.Features["single-non-dot-root"] = true
			}
		} else {
			newUnit(mods[0].Dir, "v1beta1", []string{"src"}, mods[0])
			ws.Features["single-non-dot-root"] = true
		}
	case 2:
		ws.Layout = "v1beta1 single buf.yaml with roots"
		var roots []string
		for _, m := range mods {
			roots = append(roots, m.Dir)
		}
		newUnit(".", "v1beta1", roots, mods...)
		if len(roots) > 1 {
			ws.Features["multi-root"] = true
		}
	case 3:
		ws.Layout = "v1 single module at workspace root"
		// all modules folded into one module at "."
		u := newUnit(".", "v1", []string{"."}, mods...)
		_ = u
	default:
		ws.Layout, ws.WorkYAML = "mixed v1/v1beta1/no-buf.yaml + buf.work.yaml", true
		for i, m := range mods {
			switch {
			case i == len(mods)-1:
				newUnit(m.Dir, "", []string{"."}, m)
				ws.Features["no-buf.yaml"] = true
			case i%2 == 0:
				newUnit(m.Dir, "v1", []string{"."}, m)
			default:
				newUnit(m.Dir, "v1beta1", []string{"."}, m)
			}
		}
	}
	junkN := 0
	for ui, u := range ws.Units {
		if u.Version == "" {
			continue
		}
		if len(u.Mods) == 1 && u.Mods[0].Name != "" && r.IntN(3) > 0 && !(len(u.Roots) > 1) {
			u.Name = u.Mods[0].Name
			ws.Features["named"] = true
		} else if len(u.Roots) > 1 && r.IntN(2) == 0 {
			u.Name = "buf.test/acme/multiroot"
			ws.Features["named-multi-root"] = true
		}
		if r.IntN(5) == 0 {
			u.LegacyFileName = true
			ws.Features["buf.mod"] = true
		}
		// deps on sibling modules of the workspace
		if ui > 0 && ws.WorkYAML && r.IntN(2) == 0 {
			for _, o := range ws.Units[:ui] {
				if o.Name != "" {
					u.Deps = append(u.Deps, o.Name)
					ws.Features["dep-on-sibling"] = true
				}
			}
		}
		// junk directories: excluded (clean or dirty) or left in
		for ri, root := range u.Roots {
			if r.IntN(2) == 0 {
				continue
			}
			junkN++
			dirty := r.IntN(2) == 0
			rel, content := c16JunkFile(junkN, dirty)
			ws.Junk[path.Join(u.Dir, root, rel)] = content
			switch r.IntN(4) {
			case 0:
				ws.Features["junk-not-excluded"] = true
				if u.IncludedJunk == nil {
					u.IncludedJunk = map[int]string{}
				}
				u.IncludedJunk[ri] = strings.Split(rel, "/")[0]
			case 1:
				u.Excludes = append(u.Excludes, path.Join(root, path.Dir(rel))) // junkN/v1
				ws.Features["exclude-nested-dir"] = true
			default:
				u.Excludes = append(u.Excludes, path.Join(root, strings.Split(rel, "/")[0]))
				ws.Features["exclude"] = true
			}
		}
		if r.IntN(5) > 0 {
			u.Lint = c16CheckConfig(r, ws, u, "lint")
		}
		if r.IntN(5) > 0 {
			u.Breaking = c16CheckConfig(r, ws, u, "breaking")
		}
	}
	if ws.WorkYAML && r.IntN(4) == 0 {
		ws.LockFile = true
		ws.Features["empty-buf.lock"] = true
	}
	return ws
}

func (ws *c16Workspace) bufYAML(u *c16Unit) string {
	doc := map[string]any{"version": u.Version}
	if u.Name != "" {
		doc["name"] = u.Name
	}
	if len(u.Deps) > 0 {
		doc["deps"] = strs(u.Deps)
	}
	build := map[string]any{}
	if u.Version == "v1beta1" && !(len(u.Roots) == 1 && u.Roots[0] == ".") {
		build["roots"] = strs(u.Roots)
	}
	if len(u.Excludes) > 0 {
		build["excludes"] = strs(u.Excludes)
	}
	if len(build) > 0 {
		doc["build"] = build
	}
	if len(u.Lint) > 0 {
		doc["lint"] = u.Lint
	}
	if len(u.Breaking) > 0 {
		doc["breaking"] = u.Breaking
	}
	data, err := yaml.Marshal(doc)
	if err != nil {
		panic(err)
	}
	return string(data)
}

// files returns the tree for schema s (which has the same module/file structure as the units' Mods:
// the units refer to modules by index).
func (ws *c16Workspace) files(s *gen.Schema, modIndex map[*gen.Module]int) map[string]string {
	out := map[string]string{}
	spans := map[string]*gen.Span{}
	var dirs []string
	for _, u := range ws.Units {
		for ri, m := range u.Mods {
			sm := s.Modules[modIndex[m]]
			root := u.Roots[0]
			if len(u.Roots) == len(u.Mods) {
				root = u.Roots[ri]
			}
			for _, f := range sm.Files {
				out[path.Join(u.Dir, root, f.Path)] = s.RenderFile(f, spans)
			}
		}
		if u.Version != "" {
			name := "buf.yaml"
			if u.LegacyFileName {
				name = "buf.mod"
			}
			out[path.Join(u.Dir, name)] = ws.bufYAML(u)
			if ws.LockFile {
				out[path.Join(u.Dir, "buf.lock")] = "# Generated by buf. DO NOT EDIT.\nversion: v1\n"
			}
		}
		dirs = append(dirs, u.Dir)
	}
	for p, c := range ws.Junk {
		out[p] = c
	}
	if ws.WorkYAML {
		sort.Strings(dirs)
		data, _ := yaml.Marshal(map[string]any{"version": "v1", "directories": strs(dirs)})
		out["buf.work.yaml"] = string(data)
	}
	return out
}

// ---- observation ------------------------------------------------------------------------------

type c16Obs struct {
	BuildCode int
	BuildErr  string
	Files     map[string]*descriptorpb.FileDescriptorProto
	LintCode  int
	Lint      map[string]bool
	LintErr   string
	BrkCode   int
	Brk       map[string]bool
	BrkErr    string
}

func c16ParseAnnotations(out []byte) (map[string]bool, bool) {
	set := map[string]bool{}
	ok := true
	for _, line := range strings.Split(string(out), "\n") {
		if strings.TrimSpace(line) == "" {
			continue
		}
		var a struct {
			Path        string `json:"path"`
			StartLine   int    `json:"start_line"`
			StartColumn int    `json:"start_column"`
			EndLine     int    `json:"end_line"`
			EndColumn   int    `json:"end_column"`
			Type        string `json:"type"`
			Message     string `json:"message"`
		}
		if err := json.Unmarshal([]byte(line), &a); err != nil {
			ok = false
			set["unparsed:"+line] = true
			continue
		}
		set[fmt.Sprintf("%s:%d:%d-%d:%d %s %s", a.Path, a.StartLine, a.StartColumn, a.EndLine, a.EndColumn, a.Type, a.Message)] = true
	}
	return set, ok
}

func c16ErrText(o run.Out) string {
	s := strings.TrimSpace(string(o.Stderr))
	// drop deprecation warnings (they legitimately disappear after migration)
	var keep []string
	for _, l := range strings.Split(s, "\n") {
		if t := strings.TrimSpace(l); t != "" && !strings.Contains(l, "WARN") && !strings.HasPrefix(l, "\t") && !strings.HasPrefix(l, " ") {
			keep = append(keep, t)
		}
	}
	out := strings.Join(keep, " | ")
	if len(out) > 300 {
		out = out[:300]
	}
	return out
}

type c16Observer struct {
	c    *core.C
	env  map[string]string
	root string // workspace B
	imgs string // directory for image files
}

func (ob *c16Observer) build(target string, out string, extra ...string) run.Out {
	args := append([]string{"build", target, "-o", out}, extra...)
	ob.c.Eval(1)
	return run.BufAt(ob.root, ob.env, nil, args...)
}

// c16BrkRun is one `buf breaking <Target> [--path …] --against <Against>` execution.
type c16BrkRun struct {
	Target  string
	Against string
	Paths   []string
}

// observe runs build and lint for the module directories dirs and the given breaking runs (the
// union is one observation).
func (ob *c16Observer) observe(dirs []string, brk []c16BrkRun, tag string) *c16Obs {
	o := &c16Obs{Files: map[string]*descriptorpb.FileDescriptorProto{}, Lint: map[string]bool{}, Brk: map[string]bool{}}
	for i, d := range dirs {
		img := filepath.Join(ob.imgs, fmt.Sprintf("%s-%d.binpb", tag, i))
		b := ob.build(d, img, "--exclude-imports")
		if b.Code != 0 {
			o.BuildCode = b.Code
			o.BuildErr += c16ErrText(b)
		} else if data, err := os.ReadFile(img); err == nil {
			var set descriptorpb.FileDescriptorSet
			if err := proto.Unmarshal(data, &set); err != nil {
				o.BuildErr += "unmarshal: " + err.Error()
				o.BuildCode = -1
			}
			for _, f := range set.File {
				f.ProtoReflect().SetUnknown(nil) // buf's image extension (module info) is not part of the descriptor
				o.Files[f.GetName()] = f
			}
		}
		ob.c.Eval(1)
		l := run.BufAt(ob.root, ob.env, nil, "lint", d, "--error-format", "json")
		if l.Code != 0 && l.Code != 100 {
			o.LintErr += c16ErrText(l)
		}
		o.LintCode = c16MergeCode(o.LintCode, l.Code)
		anns, _ := c16ParseAnnotations(l.Stdout)
		for a := range anns {
			o.Lint[a] = true
		}
	}
	for _, b := range brk {
		ob.c.Eval(1)
		args := []string{"breaking", b.Target, "--against", b.Against, "--error-format", "json"}
		for _, p := range b.Paths {
			args = append(args, "--path", p)
		}
		k := run.BufAt(ob.root, ob.env, nil, args...)
		if k.Code != 0 && k.Code != 100 {
			o.BrkErr += c16ErrText(k)
		}
		o.BrkCode = c16MergeCode(o.BrkCode, k.Code)
		anns, _ := c16ParseAnnotations(k.Stdout)
		for a := range anns {
			o.Brk[a] = true
		}
	}
	return o
}

// c16MergeCode combines exit codes of the runs of one observation: any failure (neither 0 nor
// 100) dominates and is reported as 1, else 100 (annotations) dominates 0.
func c16MergeCode(acc, code int) int {
	norm := func(c int) int {
		if c != 0 && c != 100 {
			return 1
		}
		return c
	}
	acc, code = norm(acc), norm(code)
	switch {
	case acc == 1 || code == 1:
		return 1
	case acc == 100 || code == 100:
		return 100
	}
	return 0
}

func c16SetDiff(a, b map[string]bool) (onlyA, onlyB []string) {
	for k := range a {
		if !b[k] {
			onlyA = append(onlyA, k)
		}
	}
	for k := range b {
		if !a[k] {
			onlyB = append(onlyB, k)
		}
	}
	sort.Strings(onlyA)
	sort.Strings(onlyB)
	return
}

func c16RuleOf(ann string) string {
	parts := strings.SplitN(ann, " ", 3)
	if len(parts) >= 2 {
		return parts[1]
	}
	return "?"
}

func c16First(xs []string, n int) []string {
	if len(xs) > n {
		return xs[:n]
	}
	return xs
}

// ---- the case ---------------------------------------------------------------------------------

func c16MigrationCase(c *core.C, idx int) {
	r := c.Rand
	c16LoadRules(c.Tmp)
	if c16RulesErr != "" {
		c.Note("cannot list rules (harness): %s", c16RulesErr) // migrations stays 0 => inconclusive
		return
	}
	base := filepath.Join(c.Tmp, fmt.Sprintf("c16mig-%d", idx))
	os.RemoveAll(base)
	if os.Getenv("C16_KEEP") == "" {
		defer os.RemoveAll(base)
	}
	env := run.BufEnv(filepath.Join(base, "home"), nil)

	cfg := gen.DefaultConfig()
	cfg.Modules = 1 + r.IntN(c.Pick(3, 4))
	if idx%5 == 1 && cfg.Modules < 2 && r.IntN(3) > 0 {
		cfg.Modules = 2
	}
	cfg.MinFiles, cfg.MaxFiles = 1, c.Pick(3, 5)
	cfg.Streaming = r.IntN(3) == 0
	s := gen.Generate(r, cfg)
	if idx%5 == 3 {
		// single module at the workspace root: fold everything into one module
		for _, m := range s.Modules[1:] {
			s.Modules[0].Files = append(s.Modules[0].Files, m.Files...)
		}
		s.Modules = s.Modules[:1]
	}
	modIndex := map[*gen.Module]int{}
	for i, m := range s.Modules {
		modIndex[m] = i
	}
	ws := c16BuildWorkspace(r, s, idx)

	// merging ignore_only keys with nested paths (see c16merge.go); own PRNG stream
	plans := c16PlanMerges(core.RandFor(c.Seed, "C16", idx, "merge"), ws, s, modIndex)

	// B = edited schema (same module/file structure)
	sb := s.Clone()
	mut := &c16Mutator{r: r, s: sb, done: map[string]int{}}
	edits := map[string]bool{}
	want := 3 + r.IntN(c.Pick(6, 10))
	for tries := 0; tries < 100 && len(edits) < want; tries++ {
		if tag := mut.apply(); tag != "" {
			edits[tag] = true
		}
	}

	c16PlantMerges(plans, sb, 1000)
	for _, p := range plans {
		if p.Planted {
			ws.Features["merge-ignore_only:"+p.Variant.Kind+":"+p.Variant.Name] = true
			edits["planted-"+p.Variant.Plant] = true
			c.Count("mig_merge_plans", 1)
		}
	}

	// B keeps every import A has (as an unused import if the edit removed the last reference): a
	// multi-root unit becomes one module per root, and a file of a sibling root that is no longer
	// imported would otherwise drop out of that module's image and count as a deleted file
	for mi, m := range s.Modules {
		for fi, f := range m.Files {
			fb := sb.Modules[mi].Files[fi]
			have := map[string]bool{}
			for _, im := range sb.ImportsOf(fb) {
				have[im.Path] = true
			}
			for _, im := range s.ImportsOf(f) {
				if !have[im.Path] {
					fb.ExtraImports = append(fb.ExtraImports, gen.Import{Path: im.Path})
					edits["unused-import"] = true
				}
			}
		}
	}
	rootA, rootB, imgs := filepath.Join(base, "A"), filepath.Join(base, "B"), filepath.Join(base, "img")
	os.MkdirAll(imgs, 0o755)
	filesB := ws.files(sb, modIndex)
	// a v1 / v1beta1 generation template next to the workspace is migrated by the same command
	var genDoc *c16Doc
	if r.IntN(3) == 0 {
		genDoc = &c16Doc{Kind: "buf.gen.yaml", Features: map[string]bool{}}
		g := &c16Gen{r: r, doc: genDoc}
		var tree map[string]any
		if r.IntN(3) == 0 {
			genDoc.Version, tree = "v1beta1", g.bufGenV1Beta1()
		} else {
			genDoc.Version, tree = "v1", g.bufGenV1()
		}
		data, err := yaml.Marshal(tree)
		if err != nil {
			panic(err)
		}
		genDoc.Text = data
		filesB["buf.gen.yaml"] = string(data)
		ws.Features["buf.gen.yaml/"+genDoc.Version] = true
	}
	if err := run.WriteTree(rootA, ws.files(s, modIndex)); err != nil {
		c.Note("harness: write: %v", err)
		return
	}
	if err := run.WriteTree(rootB, filesB); err != nil {
		c.Note("harness: write: %v", err)
		return
	}
	var featList []string
	for f := range ws.Features {
		featList = append(featList, f)
	}
	sort.Strings(featList)
	var editList []string
	for e := range edits {
		editList = append(editList, e)
	}
	sort.Strings(editList)
	witness := func() map[string]any {
		cfgs := map[string]string{}
		for p, t := range filesB {
			if strings.HasSuffix(p, ".yaml") || strings.HasSuffix(p, ".mod") || strings.HasSuffix(p, ".lock") {
				cfgs[p] = t
			}
		}
		if data, err := os.ReadFile(filepath.Join(rootB, "buf.yaml")); err == nil {
			cfgs["(migrated) buf.yaml"] = string(data)
		}
		var mp []string
		for _, p := range plans {
			if p.Planted {
				mp = append(mp, p.String())
			}
		}
		return map[string]any{"layout": ws.Layout, "features": featList, "edits": editList, "configs": cfgs, "merge_plans": mp}
	}
	cfgText := func() string {
		w := witness()
		var sbd strings.Builder
		cfgs := w["configs"].(map[string]string)
		var ks []string
		for k := range cfgs {
			ks = append(ks, k)
		}
		sort.Strings(ks)
		for _, k := range ks {
			fmt.Fprintf(&sbd, "--- %s ---\n%s", k, cfgs[k])
		}
		return sbd.String()
	}

	// against images from A, before migration: one per unit and one per root of multi-root units
	obA := &c16Observer{c: c, env: env, root: rootA, imgs: imgs}
	againstUnit := map[*c16Unit]string{}
	againstRoot := map[*c16Unit][]string{}
	for ui, u := range ws.Units {
		img := filepath.Join(imgs, fmt.Sprintf("against-%d.binpb", ui))
		if o := obA.build(u.Dir, img); o.Code != 0 {
			c.Count("mig_against_build_failed", 1)
			c.Note("against build failed (generator): layout=%s: %s", ws.Layout, c16ErrText(o))
			if os.Getenv("C16_KEEP") != "" {
				fmt.Printf("against build failed: %s\n", o.Stderr)
			}
			return
		}
		againstUnit[u] = img
		if len(u.Roots) > 1 {
			for ri, root := range u.Roots {
				rimg := filepath.Join(imgs, fmt.Sprintf("against-%d-%d.binpb", ui, ri))
				// --path may not name a root itself, and it is matched root-relative (so "acme" would
				// select that directory in every root): name the two-level directories
				// acme/<module word>, which are unique to the root
				tops := map[string]bool{}
				for _, f := range u.Mods[ri].Files {
					parts := strings.Split(f.Path, "/")
					tops[path.Join(parts[:min(2, len(parts)-1)]...)] = true
				}
				if j := u.IncludedJunk[ri]; j != "" {
					tops[j] = true
				}
				var pathArgs []string
				for t := range tops {
					pathArgs = append(pathArgs, "--path", path.Join(u.Dir, root, t))
				}
				sort.Strings(pathArgs)
				var ordered []string
				for _, a := range pathArgs {
					if a != "--path" {
						ordered = append(ordered, "--path", a)
					}
				}
				if o := obA.build(u.Dir, rimg, ordered...); o.Code != 0 {
					c.Count("mig_against_build_failed", 1)
					c.Note("against per-root build failed: %s", c16ErrText(o))
					return
				}
				againstRoot[u] = append(againstRoot[u], rimg)
			}
		}
	}

	ob := &c16Observer{c: c, env: env, root: rootB, imgs: imgs}
	before := map[*c16Unit]*c16Obs{}
	for ui, u := range ws.Units {
		brk := []c16BrkRun{{Target: u.Dir, Against: againstUnit[u]}}
		before[u] = ob.observe([]string{u.Dir}, brk, fmt.Sprintf("before-%d", ui))
	}
	wsBefore := ob.observe([]string{"."}, nil, "before-ws")

	// migrate B with the real CLI
	c.Eval(1)
	mig := run.BufAt(rootB, env, nil, "config", "migrate")
	c.Count("migrations", 1)
	key := ws.Layout
	if mig.Code != 0 {
		c.Violation("migrate-failed", key+": "+c16ErrClass(fmt.Errorf("%s", c16ErrText(mig))), fmt.Sprintf("`buf config migrate` fails (exit %d) on a %s workspace that builds: %s\n%s", mig.Code, ws.Layout, strings.TrimSpace(string(mig.Stderr)), cfgText()), witness())
		return
	}
	// leftovers: every v1 configuration file must be gone, a v2 buf.yaml must exist
	if _, err := os.Stat(filepath.Join(rootB, "buf.yaml")); err != nil {
		c.Violation("migrate-no-buf-yaml", key, "after migration there is no buf.yaml at the workspace root\n"+cfgText(), witness())
		return
	}

	// the files the migration wrote are configuration documents in their own right: they must
	// round-trip, and the migrated template must carry the configuration of the original one
	if data, err := os.ReadFile(filepath.Join(rootB, "buf.yaml")); err == nil {
		c16RoundTrip(c, &c16Doc{Kind: "buf.yaml", Version: "v2", Text: data, Features: map[string]bool{"migration-output": true}}, c16StreamCodec("buf.yaml"))
	}
	if genDoc != nil {
		c16MigratedTemplate(c, genDoc, filepath.Join(rootB, "buf.gen.yaml"))
	}
	if data, err := os.ReadFile(filepath.Join(rootB, "buf.yaml")); err == nil {
		for _, p := range plans {
			if p.Planted && c16MergeObserved(data, p) {
				c.Count("mig_merged_keys_observed", 1)
				c.Distinct("mig_merges", p.Variant.Kind+" "+p.Variant.Name+" "+p.Variant.KeyA+"+"+p.Variant.KeyB)
			}
		}
	}

	after := map[*c16Unit]*c16Obs{}
	for ui, u := range ws.Units {
		var dirs []string
		var brk []c16BrkRun
		if len(u.Roots) > 1 {
			for ri, root := range u.Roots {
				dirs = append(dirs, path.Join(u.Dir, root))
				brk = append(brk, c16BrkRun{Target: path.Join(u.Dir, root), Against: againstRoot[u][ri]})
			}
		} else {
			dirs = []string{path.Join(u.Dir, u.Roots[0])}
			brk = []c16BrkRun{{Target: dirs[0], Against: againstUnit[u]}}
		}
		after[u] = ob.observe(dirs, brk, fmt.Sprintf("after-%d", ui))
	}
	wsAfter := ob.observe([]string{"."}, nil, "after-ws")

	compare := func(what string, u *c16Unit, b, a *c16Obs) {
		uk := what
		if u != nil {
			uk = fmt.Sprintf("%s module(%s roots=%d)", what, map[string]string{"": "no-buf.yaml"}[u.Version]+u.Version, len(u.Roots))
		}
		c.Count("mig_modules_compared", 1)
		if (b.BuildCode == 0) != (a.BuildCode == 0) {
			c.Violation("migrate-build-outcome", key+": "+uk, fmt.Sprintf("%s: build exit %d before migration, %d after (%s | %s)\n%s", uk, b.BuildCode, a.BuildCode, b.BuildErr, a.BuildErr, cfgText()), witness())
		} else if b.BuildCode != 0 {
			c.Count("mig_build_failed_both", 1)
			c.Note("B does not build (generator edit?): edits=%v: %s", editList, b.BuildErr)
		} else {
			var bn, an = map[string]bool{}, map[string]bool{}
			for n := range b.Files {
				bn[n] = true
			}
			for n := range a.Files {
				an[n] = true
			}
			c.Count("mig_files_compared", len(bn))
			if lost, gained := c16SetDiff(bn, an); len(lost)+len(gained) > 0 {
				c.Violation("migrate-file-set", key+": "+uk, fmt.Sprintf("%s: set of files built changes with migration: lost %v, gained %v\n%s", uk, c16First(lost, 6), c16First(gained, 6), cfgText()), witness())
			}
			for n, fb := range b.Files {
				if fa, ok := a.Files[n]; ok && !proto.Equal(fb, fa) {
					c.Violation("migrate-descriptor", key+": "+uk, fmt.Sprintf("%s: descriptor of %s differs after migration\n%s", uk, n, cfgText()), witness())
					break
				}
			}
		}
		c.Count("mig_lint_annotations", len(b.Lint))
		if b.LintCode == 1 {
			// lint does not work on the original (buf rejects its configuration): there are no
			// results the migration could preserve; outside the property's domain
			c.Count("mig_before_lint_error", 1)
			c.Distinct("before_errors", "lint: "+c16ErrClass(fmt.Errorf("%s", b.LintErr)))
		} else if b.LintCode != a.LintCode {
			c.Violation("migrate-lint-outcome", key+": "+uk, fmt.Sprintf("%s: lint exit %d (%d annotations) before migration, %d (%d annotations) after; errors: %q → %q\nonly before: %v\nonly after: %v\n%s",
				uk, b.LintCode, len(b.Lint), a.LintCode, len(a.Lint), b.LintErr, a.LintErr, c16First(firstOnly(b.Lint, a.Lint), 4), c16First(firstOnly(a.Lint, b.Lint), 4), cfgText()), witness())
		} else if lost, gained := c16SetDiff(b.Lint, a.Lint); len(lost)+len(gained) > 0 {
			rule := "?"
			if len(lost) > 0 {
				rule = "lost:" + c16RuleOf(lost[0])
			} else {
				rule = "gained:" + c16RuleOf(gained[0])
			}
			c.Violation("migrate-lint-annotations", key+": "+uk+" "+rule, fmt.Sprintf("%s: lint results change with migration: only before %v, only after %v\n%s", uk, c16First(lost, 4), c16First(gained, 4), cfgText()), witness())
		}
		if u != nil {
			c.Count("mig_breaking_annotations", len(b.Brk))
			if b.BrkCode == 1 {
				c.Count("mig_before_breaking_error", 1)
				c.Distinct("before_errors", "breaking: "+c16ErrClass(fmt.Errorf("%s", b.BrkErr)))
			} else if b.BrkCode != a.BrkCode {
				c.Violation("migrate-breaking-outcome", key+": "+uk, fmt.Sprintf("%s: breaking exit %d (%d annotations) before migration, %d (%d) after; errors: %q → %q\nonly before: %v\nonly after: %v\n%s",
					uk, b.BrkCode, len(b.Brk), a.BrkCode, len(a.Brk), b.BrkErr, a.BrkErr, c16First(firstOnly(b.Brk, a.Brk), 4), c16First(firstOnly(a.Brk, b.Brk), 4), cfgText()), witness())
			} else if lost, gained := c16SetDiff(b.Brk, a.Brk); len(lost)+len(gained) > 0 {
				rule := "?"
				if len(lost) > 0 {
					rule = "lost:" + c16RuleOf(lost[0])
				} else {
					rule = "gained:" + c16RuleOf(gained[0])
				}
				c.Violation("migrate-breaking-annotations", key+": "+uk+" "+rule, fmt.Sprintf("%s: breaking results change with migration: only before %v, only after %v\n%s", uk, c16First(lost, 4), c16First(gained, 4), cfgText()), witness())
			}
		}
		for a := range b.Lint {
			c.Distinct("lint_rules_seen", c16RuleOf(a))
		}
		for a := range b.Brk {
			c.Distinct("breaking_rules_seen", c16RuleOf(a))
		}
	}
	for _, u := range ws.Units {
		compare("unit", u, before[u], after[u])
	}
	compare("whole workspace", nil, wsBefore, wsAfter)

	nt := ws.Layout + " " + strings.Join(featList, ",")
	c.Nontrivial("migration " + nt)
	for _, f := range featList {
		c.Distinct("mig_features", f)
	}
	for _, e := range editList {
		c.Distinct("mig_edits", e)
	}
	c.Distinct("mig_layouts", ws.Layout)
	if idx < 3 {
		c.Sample(map[string]any{"kind": "migration", "layout": ws.Layout, "features": featList, "edits": editList, "schema": s.Describe(), "migrated_buf_yaml": witness()["configs"].(map[string]string)["(migrated) buf.yaml"]})
	}
}

// c16MigratedTemplate compares the generation template written by the migration with the original.
func c16MigratedTemplate(c *core.C, orig *c16Doc, migratedPath string) {
	tag := orig.Kind + "/" + orig.Version
	codec := c16StreamCodec("buf.gen.yaml")
	f1, err := codec.read(orig.Text)
	if err != nil {
		c.Count("mig_template_rejected", 1)
		return
	}
	data, err := os.ReadFile(migratedPath)
	if err != nil {
		c.Violation("migrate-template", tag+":missing", "the generation template is gone after migration: "+err.Error(), nil)
		return
	}
	f2, err := codec.read(data)
	if err != nil {
		c.Violation("reread-error", tag+":migrated:"+c16ErrClass(err), fmt.Sprintf("the migrated template is rejected by the reader: %v\n--- original ---\n%s\n--- migrated ---\n%s", err, c16Excerpt(orig.Text, 1200), c16Excerpt(data, 1200)), nil)
		return
	}
	c.Eval(1)
	c.Count("mig_templates_compared", 1)
	if v := f2.(interface{ FileVersion() bufconfig.FileVersion }).FileVersion(); v != bufconfig.FileVersionV2 {
		c.Violation("migrate-template", tag+":not-v2", fmt.Sprintf("the migrated template has version %v", v), nil)
	}
	snapper := &c16Snapper{normalizeGen: true}
	s1, s2 := snapper.snap(f1), snapper.snap(f2)
	if !reflect.DeepEqual(s1, s2) {
		diffs := c16Diff(s1, s2, 6)
		seen := map[string]bool{}
		for _, d := range diffs {
			k := c16DiffKey(d)
			if seen[k] {
				continue
			}
			seen[k] = true
			c.Violation("roundtrip-snapshot", tag+":"+k, fmt.Sprintf("`buf config migrate` changes the configuration of a %s template at %s\nall differences: %s\n--- original ---\n%s\n--- migrated ---\n%s",
				tag, d, strings.Join(diffs, " | "), c16Excerpt(orig.Text, 1200), c16Excerpt(data, 1200)), map[string]any{"document": string(orig.Text), "via": "buf config migrate"})
		}
	}
}

func firstOnly(a, b map[string]bool) []string {
	x, _ := c16SetDiff(a, b)
	return x
}

func init() {
	// development aid: `verif helper c16ws <idx> <dir>` writes the B workspace of migration case idx (seed 1) into dir
	core.RegisterHelper("c16ws", func(args []string) int {
		var idx int
		fmt.Sscan(args[0], &idx)
		seed := uint64(1)
		if len(args) > 2 {
			fmt.Sscan(args[2], &seed)
		}
		c := core.NewDetachedC("C16", seed, idx)
		c.Rand = core.RandFor(seed, "C16", idx, "case")
		c.Tmp = args[1]
		os.Setenv("C16_KEEP", "1")
		c16MigrationCase(c, idx)
		return 0
	})
}
