package checks

import (
	"context"
	"encoding/json"
	"errors"
	"fmt"
	"io/fs"
	"os"
	"path/filepath"
	"sort"
	"strings"
	"time"

	"github.com/bufbuild/buf/private/buf/buftarget"
	"github.com/bufbuild/buf/private/buf/bufworkspace"
	"github.com/bufbuild/buf/private/bufpkg/bufimage"
	"github.com/bufbuild/buf/private/bufpkg/bufmodule"
	"github.com/bufbuild/buf/private/bufpkg/bufmodule/bufmoduletesting"
	"github.com/bufbuild/buf/private/bufpkg/bufparse"
	"github.com/bufbuild/buf/private/bufpkg/bufplugin"
	"github.com/bufbuild/buf/private/pkg/storage"
	"github.com/bufbuild/buf/private/pkg/storage/storagemem"
	"github.com/bufbuild/buf/private/pkg/storage/storageos"
	"github.com/bufbuild/buf/private/pkg/uuidutil"
	"github.com/bufbuild/verifharness/core"
	"github.com/bufbuild/verifharness/img"
	"github.com/bufbuild/verifharness/model"
	"github.com/bufbuild/verifharness/run"
	"github.com/google/uuid"
)

// C10 — workspace dependency resolution is exact and ambiguity is an error.
//
// Workload: hand-rolled workspaces whose module-level import graph is known by construction:
// 2–5 local modules (v2 buf.yaml or v1 buf.work.yaml; named/unnamed), 0–3 remote module names with
// 1–3 commits each served by an in-process registry stand-in (ModuleDataProvider + CommitProvider),
// pinned in generated buf.lock files; local modules that shadow a remote name; planted module cycles,
// duplicate paths and missing imports. Oracle: graph model (reachability, first hop, precedence
// target > local > newest remote commit), expected error types, and ls-files ≡ build.

type c10File struct {
	Path    string
	Pkg     string
	Msg     string
	Imports []string // import paths
	Marker  string
}

type c10Mod struct {
	ID         string // l0…, r0c1…
	Name       string // full name or ""
	Dir        string // local modules
	Local      bool
	Commit     uuid.UUID
	CreateTime time.Time
	Files      []*c10File
	// Lock: remote commits pinned by this module's buf.lock (v1) — IDs of remote c10Mods
	Lock []string
}

type c10WS struct {
	Version string // v2 | v1
	Locals  []*c10Mod
	Remotes []*c10Mod         // every commit of every remote name
	Owner   map[string]string // import path -> module key ("name" for remotes, ID for locals) after precedence
	Plant   string            // "", cycle, duplicate, missing
	LockIDs []string          // v2: remote commits pinned at the root
	// PlantDirs: directories of the local modules that carry the planted problem
	PlantDirs []string
	// DupImporter: directory of the local module with a file importing the duplicated path ("" = nobody)
	DupImporter, DupImporterKind string
	DupPath                      string
}

func (f *c10File) text(msgOf map[string][2]string) string {
	var sb strings.Builder
	sb.WriteString("syntax = \"proto3\";\npackage " + f.Pkg + ";\n")
	for i, im := range f.Imports {
		if i%3 == 1 {
			// a weak import is an import: the owner of the file is a dependency all the same
			sb.WriteString(fmt.Sprintf("import weak %q;\n", im))
			continue
		}
		sb.WriteString(fmt.Sprintf("import %q;\n", im))
	}
	sb.WriteString("message " + f.Msg + " {\n")
	n := 1
	for _, im := range f.Imports {
		if pm, ok := msgOf[im]; ok {
			sb.WriteString(fmt.Sprintf("  .%s.%s d%d = %d;\n", pm[0], pm[1], n, n))
			n++
		}
	}
	sb.WriteString(fmt.Sprintf("  string %s = %d;\n}\n", f.Marker, n))
	return sb.String()
}

func c10Gen(c *core.C, errorCase bool) *c10WS {
	r := c.Rand
	ws := &c10WS{Version: []string{"v2", "v1"}[r.IntN(2)], Owner: map[string]string{}}
	nRemoteNames := r.IntN(4)
	if errorCase {
		nRemoteNames = r.IntN(2)
	}
	nLocals := 2 + r.IntN(4)
	type fileRef struct{ path, pkg, msg string }
	var earlier [][]fileRef // per module (in DAG order): its files
	base := time.Unix(1700000000, 0)
	// remotes first in the order
	for k := 0; k < nRemoteNames; k++ {
		ncommits := 1 + r.IntN(3)
		nfiles := 1 + r.IntN(3)
		pkg := fmt.Sprintf("r%d", k)
		var refs []fileRef
		// import structure is shared by all commits of a name
		imports := make([][]string, nfiles)
		for j := 0; j < nfiles; j++ {
			for t := 0; t < r.IntN(3); t++ {
				if len(earlier) > 0 {
					m := earlier[r.IntN(len(earlier))]
					imports[j] = append(imports[j], m[r.IntN(len(m))].path)
				}
			}
			imports[j] = dedup(imports[j])
			refs = append(refs, fileRef{fmt.Sprintf("%s/f%d.proto", pkg, j), pkg, fmt.Sprintf("R%dF%d", k, j)})
		}
		perm := r.Perm(ncommits) // create-time order is not the listing order
		for cidx := 0; cidx < ncommits; cidx++ {
			m := &c10Mod{ID: fmt.Sprintf("r%dc%d", k, cidx), Name: fmt.Sprintf("buf.test/acme/r%d", k),
				Commit:     uuid.NewSHA1(uuid.NameSpaceOID, []byte(fmt.Sprintf("c10-%d-%d-%d-%d", c.Seed, c.Idx, k, cidx))),
				CreateTime: base.Add(time.Duration(perm[cidx]+1) * time.Hour)}
			for j := 0; j < nfiles; j++ {
				m.Files = append(m.Files, &c10File{Path: refs[j].path, Pkg: pkg, Msg: refs[j].msg, Imports: imports[j], Marker: fmt.Sprintf("commit_c%d", cidx)})
			}
			ws.Remotes = append(ws.Remotes, m)
		}
		earlier = append(earlier, refs)
	}
	// sometimes a local module ships a file at a well-known-type path: importing that path is then an
	// ordinary dependency on that module (and its copy, not the built-in one, is compiled)
	if !errorCase && r.IntN(5) == 0 {
		wm := &c10Mod{ID: "lwkt", Local: true, Dir: "mods/wkt", Name: "buf.test/acme/wkt"}
		wm.Files = []*c10File{{Path: "google/protobuf/timestamp.proto", Pkg: "google.protobuf", Msg: "Timestamp", Marker: "local_wkt"}}
		ws.Locals = append(ws.Locals, wm)
	}
	for k := 0; k < nLocals; k++ {
		pkg := fmt.Sprintf("l%d", k)
		m := &c10Mod{ID: pkg, Local: true, Dir: []string{"mods/" + pkg, pkg, "proto/" + pkg + "/src"}[r.IntN(3)]}
		if r.IntN(3) != 0 {
			m.Name = "buf.test/acme/" + pkg
		}
		// a local module that shadows a remote name and provides its paths
		shadow := -1
		if !errorCase && nRemoteNames > 0 && k == 0 && r.IntN(3) == 0 {
			shadow = r.IntN(nRemoteNames)
		}
		nfiles := 1 + r.IntN(3)
		var refs []fileRef
		if shadow >= 0 {
			m.Name = fmt.Sprintf("buf.test/acme/r%d", shadow)
			for _, rm := range ws.Remotes {
				if rm.Name == m.Name {
					for _, f := range rm.Files {
						m.Files = append(m.Files, &c10File{Path: f.Path, Pkg: f.Pkg, Msg: f.Msg, Imports: f.Imports, Marker: "local_shadow"})
					}
					break
				}
			}
			ws.Locals = append(ws.Locals, m)
			continue // its refs are already in `earlier` under the remote's slot
		}
		for j := 0; j < nfiles; j++ {
			f := &c10File{Path: fmt.Sprintf("%s/f%d.proto", pkg, j), Pkg: pkg, Msg: fmt.Sprintf("L%dF%d", k, j), Marker: "local"}
			for t := 0; t < r.IntN(3); t++ {
				if len(earlier) > 0 {
					em := earlier[r.IntN(len(earlier))]
					f.Imports = append(f.Imports, em[r.IntN(len(em))].path)
				}
			}
			if r.IntN(6) == 0 {
				f.Imports = append(f.Imports, "google/protobuf/timestamp.proto")
			}
			if r.IntN(6) == 0 {
				// well-known types that themselves import other well-known types
				f.Imports = append(f.Imports, []string{"google/protobuf/type.proto", "google/protobuf/api.proto"}[r.IntN(2)])
			}
			f.Imports = dedup(f.Imports)
			m.Files = append(m.Files, f)
			refs = append(refs, fileRef{f.Path, pkg, f.Msg})
		}
		ws.Locals = append(ws.Locals, m)
		earlier = append(earlier, refs)
	}
	// plants
	if errorCase {
		ws.Plant = []string{"cycle", "duplicate", "missing"}[c.Idx%3]
		switch ws.Plant {
		case "cycle":
			// find locals A before B where B imports A; add a new file to A importing a file of B
			done := false
			for bi := len(ws.Locals) - 1; bi > 0 && !done; bi-- {
				b := ws.Locals[bi]
				for ai := 0; ai < bi && !done; ai++ {
					a := ws.Locals[ai]
					// make sure B depends on A
					b.Files[0].Imports = dedup(append(b.Files[0].Imports, a.Files[0].Path))
					ws.PlantDirs = []string{a.Dir, b.Dir}
					a.Files = append(a.Files, &c10File{Path: a.Files[0].Pkg + "/cyc.proto", Pkg: a.Files[0].Pkg, Msg: "Cyc", Imports: []string{b.Files[len(b.Files)-1].Path}, Marker: "cyc"})
					if len(b.Files) == 1 {
						// B/f0 imports A/f0 and A/cyc imports B/f0: file-level acyclic, module-level cyclic
					}
					done = true
				}
			}
		case "duplicate":
			a, b := ws.Locals[0], ws.Locals[len(ws.Locals)-1]
			ws.PlantDirs = []string{a.Dir, b.Dir}
			dupPath, dupPkg, dupMsg := "dup/dup.proto", "dup", "Dup"
			if (c.Idx/9)%2 == 1 {
				// the duplicated path is one that buf also bundles (a well-known type): two modules shipping it is
				// as ambiguous as any other duplicate — the bundled copy must not quietly settle it
				dupPath, dupPkg, dupMsg = "google/protobuf/timestamp.proto", "google.protobuf", "Timestamp"
				c.Count("duplicate_wkt_path_cases", 1)
			}
			ws.DupPath = dupPath
			a.Files = append(a.Files, &c10File{Path: dupPath, Pkg: dupPkg, Msg: dupMsg, Marker: "one"})
			b.Files = append(b.Files, &c10File{Path: dupPath, Pkg: dupPkg, Msg: dupMsg, Marker: "two"})
			// who imports the ambiguous path: nobody, a file of the module that has its own copy (the other
			// owner is not otherwise one of its dependencies: a is the first local), or a third module
			switch (c.Idx / 3) % 3 {
			case 1:
				a.Files[0].Imports = dedup(append(a.Files[0].Imports, dupPath))
				ws.DupImporter, ws.DupImporterKind = a.Dir, "owner"
			case 2:
				if len(ws.Locals) > 2 {
					m := ws.Locals[1+r.IntN(len(ws.Locals)-2)]
					m.Files[len(m.Files)-1].Imports = dedup(append(m.Files[len(m.Files)-1].Imports, dupPath))
					ws.DupImporter, ws.DupImporterKind = m.Dir, "third"
					ws.PlantDirs = append(ws.PlantDirs, m.Dir)
				}
			}
		case "missing":
			m := ws.Locals[r.IntN(len(ws.Locals))]
			f := m.Files[r.IntN(len(m.Files))]
			ws.PlantDirs = []string{m.Dir}
			f.Imports = append(f.Imports, "nowhere/v1/missing.proto")
		}
	}
	return ws
}

// resolve computes owners (precedence: local over remote; among remote commits the pinned ones, newest create time).
type c10Resolved struct {
	chosenRemote map[string]*c10Mod // name -> chosen commit (if not shadowed)
	modOfPath    map[string]*c10Mod
	mods         []*c10Mod // effective modules: locals + chosen remotes that are pinned
	msgOf        map[string][2]string
}

func c10Pins(c *core.C, ws *c10WS) {
	// which remote commits are pinned: v2 one commit per name; v1 per-module locks may pin different commits
	byName := map[string][]*c10Mod{}
	var names []string
	for _, rm := range ws.Remotes {
		if len(byName[rm.Name]) == 0 {
			names = append(names, rm.Name)
		}
		byName[rm.Name] = append(byName[rm.Name], rm)
	}
	if ws.Version == "v2" {
		for _, n := range names {
			cs := byName[n]
			ws.LockIDs = append(ws.LockIDs, cs[c.Rand.IntN(len(cs))].ID)
		}
		return
	}
	for _, lm := range ws.Locals {
		for _, n := range names {
			cs := byName[n]
			lm.Lock = append(lm.Lock, cs[c.Rand.IntN(len(cs))].ID)
		}
	}
}

func c10Resolve(ws *c10WS) *c10Resolved {
	res := &c10Resolved{chosenRemote: map[string]*c10Mod{}, modOfPath: map[string]*c10Mod{}, msgOf: map[string][2]string{}}
	byID := map[string]*c10Mod{}
	for _, rm := range ws.Remotes {
		byID[rm.ID] = rm
	}
	pinned := map[string][]*c10Mod{}
	add := func(id string) {
		rm := byID[id]
		for _, x := range pinned[rm.Name] {
			if x == rm {
				return
			}
		}
		pinned[rm.Name] = append(pinned[rm.Name], rm)
	}
	for _, id := range ws.LockIDs {
		add(id)
	}
	for _, lm := range ws.Locals {
		for _, id := range lm.Lock {
			add(id)
		}
	}
	localNames := map[string]bool{}
	for _, lm := range ws.Locals {
		if lm.Name != "" {
			localNames[lm.Name] = true
		}
		res.mods = append(res.mods, lm)
	}
	for name, cs := range pinned {
		if localNames[name] {
			continue // a module present locally takes precedence over a same-named pinned one
		}
		best := cs[0]
		for _, x := range cs[1:] {
			if x.CreateTime.After(best.CreateTime) {
				best = x
			}
		}
		res.chosenRemote[name] = best
		res.mods = append(res.mods, best)
	}
	for _, m := range res.mods {
		for _, f := range m.Files {
			res.modOfPath[f.Path] = m
			res.msgOf[f.Path] = [2]string{f.Pkg, f.Msg}
		}
	}
	res.msgOf["google/protobuf/timestamp.proto"] = [2]string{"google.protobuf", "Timestamp"}
	res.msgOf["google/protobuf/type.proto"] = [2]string{"google.protobuf", "Type"}
	res.msgOf["google/protobuf/api.proto"] = [2]string{"google.protobuf", "Api"}
	return res
}

func (m *c10Mod) key() string {
	if m.Name != "" {
		return m.Name
	}
	return m.Dir
}

// deps: module key -> (dep key -> direct)
func c10Deps(res *c10Resolved) map[string]map[string]bool {
	edges := map[string]map[string]bool{}
	for _, m := range res.mods {
		edges[m.key()] = map[string]bool{}
		for _, f := range m.Files {
			for _, im := range f.Imports {
				if o, ok := res.modOfPath[im]; ok && o != m {
					edges[m.key()][o.key()] = true
				}
			}
		}
	}
	out := map[string]map[string]bool{}
	for _, m := range res.mods {
		d := map[string]bool{}
		var visit func(k string, depth int)
		seen := map[string]bool{m.key(): true}
		var queue []string
		for k := range edges[m.key()] {
			d[k] = true
			seen[k] = true
			queue = append(queue, k)
		}
		_ = visit
		for len(queue) > 0 {
			k := queue[0]
			queue = queue[1:]
			for n := range edges[k] {
				if !seen[n] {
					seen[n] = true
					d[n] = false
					queue = append(queue, n)
				}
			}
		}
		out[m.key()] = d
	}
	return out
}

// registry stand-in --------------------------------------------------------------------------

type c10Registry struct {
	byCommit map[uuid.UUID]*c10Mod
	res      *c10Resolved
	all      []*c10Mod
	// b4: v1 buf.lock files must carry b4 ("shake256") digests; the b4 construction is taken from
	// buf itself here (digests are C08's subject, not this check's)
	b4    bool
	b4Mem map[string]string
}

func (rg *c10Registry) digest(m *c10Mod) string {
	if !rg.b4 {
		return rg.b5(m)
	}
	if d, ok := rg.b4Mem[m.ID]; ok {
		return d
	}
	ms, err := bufmoduletesting.NewModuleSetForPathToData(rg.files(m))
	if err != nil {
		panic(err)
	}
	d, err := ms.Modules()[0].Digest(bufmodule.DigestTypeB4)
	if err != nil {
		panic(err)
	}
	if rg.b4Mem == nil {
		rg.b4Mem = map[string]string{}
	}
	rg.b4Mem[m.ID] = d.String()
	return d.String()
}

func (rg *c10Registry) files(m *c10Mod) map[string][]byte {
	out := map[string][]byte{}
	// messages of imported files: within the remote universe, same name -> same message
	msgOf := map[string][2]string{"google/protobuf/timestamp.proto": {"google.protobuf", "Timestamp"}, "google/protobuf/type.proto": {"google.protobuf", "Type"}, "google/protobuf/api.proto": {"google.protobuf", "Api"}}
	for _, x := range rg.all {
		for _, f := range x.Files {
			msgOf[f.Path] = [2]string{f.Pkg, f.Msg}
		}
	}
	for _, f := range m.Files {
		out[f.Path] = []byte(f.text(msgOf))
	}
	return out
}

// depKeys: for a remote commit, the keys of the remote modules its files import (pinned to the newest commit of each name).
func (rg *c10Registry) depMods(m *c10Mod) []*c10Mod {
	newest := map[string]*c10Mod{}
	owner := map[string]string{}
	for _, x := range rg.all {
		if cur, ok := newest[x.Name]; !ok || x.CreateTime.After(cur.CreateTime) {
			newest[x.Name] = x
		}
		for _, f := range x.Files {
			owner[f.Path] = x.Name
		}
	}
	seen := map[string]bool{}
	var out []*c10Mod
	var visit func(x *c10Mod)
	visit = func(x *c10Mod) {
		for _, f := range x.Files {
			for _, im := range f.Imports {
				if n, ok := owner[im]; ok && n != m.Name && !seen[n] {
					seen[n] = true
					out = append(out, newest[n])
					visit(newest[n])
				}
			}
		}
	}
	visit(m)
	sort.Slice(out, func(i, j int) bool { return out[i].Name < out[j].Name })
	return out
}

func (rg *c10Registry) b5(m *c10Mod) string {
	var deps []string
	for _, d := range rg.depMods(m) {
		deps = append(deps, rg.b5(d))
	}
	return model.B5(rg.files(m), deps)
}

func (rg *c10Registry) moduleKey(m *c10Mod) bufmodule.ModuleKey {
	fn, err := bufparse.ParseFullName(m.Name)
	if err != nil {
		panic(err)
	}
	d := rg.digest(m)
	k, err := bufmodule.NewModuleKey(fn, m.Commit, func() (bufmodule.Digest, error) { return bufmodule.ParseDigest(d) })
	if err != nil {
		panic(err)
	}
	return k
}

func (rg *c10Registry) GetModuleDatasForModuleKeys(ctx context.Context, keys []bufmodule.ModuleKey) ([]bufmodule.ModuleData, error) {
	var out []bufmodule.ModuleData
	for _, k := range keys {
		m, ok := rg.byCommit[k.CommitID()]
		if !ok {
			return nil, &fs.PathError{Op: "read", Path: k.String(), Err: fs.ErrNotExist}
		}
		mm := m
		out = append(out, bufmodule.NewModuleData(ctx, k,
			func() (storage.ReadBucket, error) { return storagemem.NewReadBucket(rg.files(mm)) },
			func() ([]bufmodule.ModuleKey, error) {
				var ks []bufmodule.ModuleKey
				for _, d := range rg.depMods(mm) {
					ks = append(ks, rg.moduleKey(d))
				}
				return ks, nil
			},
			func() (bufmodule.ObjectData, error) { return nil, nil },
			func() (bufmodule.ObjectData, error) { return nil, nil },
		))
	}
	return out, nil
}

func (rg *c10Registry) GetCommitsForModuleKeys(ctx context.Context, keys []bufmodule.ModuleKey) ([]bufmodule.Commit, error) {
	var out []bufmodule.Commit
	for _, k := range keys {
		m, ok := rg.byCommit[k.CommitID()]
		if !ok {
			return nil, &fs.PathError{Op: "read", Path: k.String(), Err: fs.ErrNotExist}
		}
		t := m.CreateTime
		out = append(out, bufmodule.NewCommit(k, func() (time.Time, error) { return t, nil }))
	}
	return out, nil
}

func (rg *c10Registry) GetCommitsForCommitKeys(ctx context.Context, keys []bufmodule.CommitKey) ([]bufmodule.Commit, error) {
	var out []bufmodule.Commit
	for _, ck := range keys {
		m, ok := rg.byCommit[ck.CommitID()]
		if !ok {
			return nil, &fs.PathError{Op: "read", Path: ck.String(), Err: fs.ErrNotExist}
		}
		t := m.CreateTime
		out = append(out, bufmodule.NewCommit(rg.moduleKey(m), func() (time.Time, error) { return t, nil }))
	}
	return out, nil
}

// workspace files -------------------------------------------------------------------------------

func c10Write(dir string, ws *c10WS, rg *c10Registry, res *c10Resolved) error {
	files := map[string]string{}
	lockFor := func(ids []string, version string) string {
		if len(ids) == 0 {
			return ""
		}
		byID := map[string]*c10Mod{}
		for _, rm := range ws.Remotes {
			byID[rm.ID] = rm
		}
		var sb strings.Builder
		sb.WriteString("version: " + version + "\ndeps:\n")
		sorted := append([]string{}, ids...)
		sort.Slice(sorted, func(i, j int) bool { return byID[sorted[i]].Name < byID[sorted[j]].Name })
		for _, id := range sorted {
			rm := byID[id]
			if version == "v2" {
				sb.WriteString(fmt.Sprintf("  - name: %s\n    commit: %s\n    digest: %s\n", rm.Name, uuidutil.ToDashless(rm.Commit), rg.digest(rm)))
			} else {
				parts := strings.Split(rm.Name, "/")
				sb.WriteString(fmt.Sprintf("  - remote: %s\n    owner: %s\n    repository: %s\n    commit: %s\n    digest: %s\n", parts[0], parts[1], parts[2], uuidutil.ToDashless(rm.Commit), rg.digest(rm)))
			}
		}
		return sb.String()
	}
	depsYAML := func(ids []string) string {
		byID := map[string]*c10Mod{}
		for _, rm := range ws.Remotes {
			byID[rm.ID] = rm
		}
		seen := map[string]bool{}
		var sb strings.Builder
		for _, id := range ids {
			if !seen[byID[id].Name] {
				seen[byID[id].Name] = true
				sb.WriteString("  - " + byID[id].Name + "\n")
			}
		}
		if sb.Len() == 0 {
			return ""
		}
		return "deps:\n" + sb.String()
	}
	if ws.Version == "v2" {
		var sb strings.Builder
		sb.WriteString("version: v2\nmodules:\n")
		for _, m := range ws.Locals {
			sb.WriteString("  - path: " + m.Dir + "\n")
			if m.Name != "" {
				sb.WriteString("    name: " + m.Name + "\n")
			}
		}
		sb.WriteString(depsYAML(ws.LockIDs))
		files["buf.yaml"] = sb.String()
		if l := lockFor(ws.LockIDs, "v2"); l != "" {
			files["buf.lock"] = l
		}
	} else {
		var sb strings.Builder
		sb.WriteString("version: v1\ndirectories:\n")
		for _, m := range ws.Locals {
			sb.WriteString("  - " + m.Dir + "\n")
		}
		files["buf.work.yaml"] = sb.String()
		for _, m := range ws.Locals {
			y := "version: v1\n"
			if m.Name != "" {
				y += "name: " + m.Name + "\n"
			}
			y += depsYAML(m.Lock)
			files[m.Dir+"/buf.yaml"] = y
			if l := lockFor(m.Lock, "v1"); l != "" {
				files[m.Dir+"/buf.lock"] = l
			}
		}
	}
	for _, m := range ws.Locals {
		for _, f := range m.Files {
			files[m.Dir+"/"+f.Path] = f.text(res.msgOf)
		}
	}
	return run.WriteTree(dir, files)
}

func c10Workspace(dir string, subDir string, rg *c10Registry) (bufworkspace.Workspace, error) {
	ctx := context.Background()
	bucket, err := storageos.NewProvider(storageos.ProviderWithSymlinks()).NewReadWriteBucket(dir, storageos.ReadWriteBucketWithSymlinksIfSupported())
	if err != nil {
		return nil, err
	}
	bt, err := buftarget.NewBucketTargeting(ctx, c09Logger, bucket, subDir, nil, nil, buftarget.TerminateAtControllingWorkspace)
	if err != nil {
		return nil, err
	}
	return bufworkspace.NewWorkspaceProvider(c09Logger, bufmodule.NopGraphProvider, rg, rg, bufplugin.NopPluginKeyProvider).GetWorkspaceForBucket(ctx, bucket, bt)
}

func c10KeyOfModule(m bufmodule.Module) string {
	if fn := m.FullName(); fn != nil {
		return fn.String()
	}
	return m.BucketID()
}

func c10Run(c *core.C, idx int) {
	nOK := c10OKCases(c.Tier)
	errorCase := idx >= nOK
	ws := c10Gen(c, errorCase)
	c10Pins(c, ws)
	res := c10Resolve(ws)
	rg := &c10Registry{byCommit: map[uuid.UUID]*c10Mod{}, res: res, all: ws.Remotes, b4: ws.Version == "v1"}
	for _, rm := range ws.Remotes {
		rg.byCommit[rm.Commit] = rm
	}
	dir := filepath.Join(c.Tmp, "c10ws")
	os.RemoveAll(dir)
	defer os.RemoveAll(dir)
	if err := c10Write(dir, ws, rg, res); err != nil {
		c.Note("write: %v", err)
		return
	}
	ctx := context.Background()
	keyBase := fmt.Sprintf("case=%d %s locals=%d remotes=%d plant=%s", idx, ws.Version, len(ws.Locals), len(ws.Remotes), ws.Plant)
	shape := fmt.Sprintf("%s locals=%d remoteCommits=%d shadow=%v plant=%s", ws.Version, len(ws.Locals), len(ws.Remotes), c10HasShadow(ws), ws.Plant)

	targets := []string{"."}
	for _, m := range ws.Locals {
		targets = append(targets, m.Dir)
	}
	if !c.Thorough() && len(targets) > 3 {
		targets = append(targets[:1], targets[1+c.Rand.IntN(len(targets)-1)])
	}
	for _, sub := range targets {
		key := keyBase + " target=" + sub
		w, err := c10Workspace(dir, sub, rg)
		c.Eval(1)
		if errorCase {
			// the planted problem has to be resolved only when a module that carries it is targeted
			// (building another module never looks at the offending file or path)
			reached := sub == "."
			for _, d := range ws.PlantDirs {
				if d == sub {
					reached = true
				}
			}
			if !reached {
				c.Count("error_cases_plant_not_targeted", 1)
				continue
			}
			c10ExpectError(c, ws, w, err, key)
			c.Nontrivial(shape + " target=" + map[bool]string{true: "root", false: "module"}[sub == "."])
			continue
		}
		if err != nil {
			c.Violation("workspace-failed", key, fmt.Sprintf("unambiguous workspace failed to load: %v", err), map[string]any{"ws": ws})
			continue
		}
		c10CheckWorkspace(ctx, c, ws, res, w, sub, key)
		c.Nontrivial(shape + " target=" + map[bool]string{true: "root", false: "module"}[sub == "."])
	}
	// CLI boundary for local-only workspaces
	if len(ws.Remotes) == 0 && !errorCase {
		c10CLI(c, ws, res, dir, keyBase)
	}
	if len(ws.Remotes) == 0 && errorCase {
		env := run.BufEnv(filepath.Join(c.Tmp, "home"), nil)
		cmds := [][]string{{"build", "-o", "-#format=binpb"}}
		if ws.Plant == "cycle" {
			cmds = [][]string{{"dep", "graph"}}
		}
		if ws.Plant == "duplicate" && ws.DupImporter != "" {
			cmds = append(cmds, []string{"dep", "graph"}, []string{"ls-files", "--include-imports"})
		}
		for _, args := range cmds {
			o := run.Buf(dir, env, nil, args...)
			c.Eval(1)
			if o.Code == 0 {
				c.Violation("ambiguity-not-an-error", keyBase+" cmd=cli:"+args[0]+" importer="+ws.DupImporterKind, fmt.Sprintf("buf %s succeeded on a workspace with a planted %s", strings.Join(args, " "), ws.Plant), nil)
			}
			c.Count("cli_error_runs", 1)
		}
	}
	if idx < 2 || (errorCase && idx < nOK+3) {
		var mods []string
		for _, m := range res.mods {
			var fs []string
			for _, f := range m.Files {
				fs = append(fs, fmt.Sprintf("%s→%v", f.Path, f.Imports))
			}
			mods = append(mods, fmt.Sprintf("%s[%s]: %s", m.ID, m.key(), strings.Join(fs, "; ")))
		}
		c.Sample(map[string]any{"version": ws.Version, "plant": ws.Plant, "modules": mods})
	}
}

func c10HasShadow(ws *c10WS) bool {
	for _, l := range ws.Locals {
		for _, r := range ws.Remotes {
			if l.Name == r.Name {
				return true
			}
		}
	}
	return false
}

func c10ExpectError(c *core.C, ws *c10WS, w bufworkspace.Workspace, err error, key string) {
	ctx := context.Background()
	// the error may surface when the workspace is loaded, when deps are computed, or when the image is built
	var errs []error
	if err != nil {
		errs = append(errs, err)
	} else {
		// An operation that has to resolve the ambiguous import reports it itself: the dependencies of the
		// importing module, the module DAG (it contains that module) — not only the build.
		demand := func(op string, derr error) {
			if ws.Plant != "duplicate" || ws.DupImporter == "" {
				return
			}
			c.Count("duplicate_resolving_operations", 1)
			var de *bufmodule.DuplicateProtoPathError
			if derr == nil {
				c.Violation("ambiguity-resolved-arbitrarily", key+" op="+op+" importer="+ws.DupImporterKind, fmt.Sprintf("%s succeeded although a file of %s imports %s, which two modules provide", op, ws.DupImporter, ws.DupPath), map[string]any{"ws": ws})
			} else if !errors.As(derr, &de) {
				c.Violation("wrong-error-type", key+" op="+op, fmt.Sprintf("%s: planted duplicate produced an error of another kind: %v", op, derr), nil)
			}
		}
		importerTargeted := false
		for _, m := range w.Modules() {
			_, derr := m.ModuleDeps()
			if derr != nil {
				errs = append(errs, derr)
			}
			if m.IsLocal() && ws.DupImporter != "" && c10KeyOfModule(m) == c10LocalKey(ws, ws.DupImporter) {
				demand("ModuleDeps", derr)
				importerTargeted = m.IsTarget()
			}
		}
		_, derr := bufmodule.ModuleSetToDAG(w)
		if derr != nil {
			errs = append(errs, derr)
		}
		if importerTargeted {
			// the DAG is computed from the target modules
			demand("ModuleSetToDAG", derr)
		}
		if _, berr := bufimage.BuildImage(ctx, c09Logger, bufmodule.ModuleSetToModuleReadBucketWithOnlyProtoFiles(w)); berr != nil {
			errs = append(errs, berr)
		} else if ws.Plant != "cycle" {
			// a module-level cycle whose files are acyclic still compiles; it is reported where module
			// dependencies are computed (ModuleDeps, ModuleSetToDAG, dep graph) — a duplicate path or a
			// missing import must fail the build
			c.Violation("ambiguity-not-an-error", key, fmt.Sprintf("BuildImage succeeded on a workspace with a planted %s", ws.Plant), map[string]any{"ws": ws})
		}
	}
	c.Count("error_cases", 1)
	found := false
	for _, e := range errs {
		switch ws.Plant {
		case "cycle":
			var ce *bufmodule.ModuleCycleError
			if errors.As(e, &ce) {
				found = true
			}
		case "duplicate":
			var de *bufmodule.DuplicateProtoPathError
			if errors.As(e, &de) {
				found = true
			}
		case "missing":
			var ie *bufmodule.ImportNotExistError
			if errors.As(e, &ie) {
				found = true
			}
		}
	}
	if len(errs) == 0 {
		c.Violation("ambiguity-not-an-error", key, fmt.Sprintf("no error at all for a planted %s", ws.Plant), map[string]any{"ws": ws})
	} else if !found {
		c.Violation("wrong-error-type", key, fmt.Sprintf("planted %s produced errors of another kind: %v", ws.Plant, errs[0]), nil)
	} else {
		c.Count("typed_errors_matched", 1)
		c.Distinct("error_kinds", ws.Plant)
	}
}

func c10CheckWorkspace(ctx context.Context, c *core.C, ws *c10WS, res *c10Resolved, w bufworkspace.Workspace, sub, key string) {
	wantDeps := c10Deps(res)
	byKey := map[string]bufmodule.Module{}
	for _, m := range w.Modules() {
		byKey[c10KeyOfModule(m)] = m
	}
	// module set = locals + chosen remote commits
	for _, m := range res.mods {
		got, ok := byKey[m.key()]
		if !ok {
			c.Violation("module-missing", key+" module="+m.key(), fmt.Sprintf("module %s not in the workspace's module set %v", m.key(), keysOf(byKey)), nil)
			continue
		}
		if m.Local != got.IsLocal() {
			c.Violation("precedence", key+" module="+m.key(), fmt.Sprintf("module %s: local=%v, expected %v (a local module takes precedence over a same-named pinned one)", m.key(), got.IsLocal(), m.Local), nil)
		}
		if !m.Local && got.CommitID() != m.Commit {
			c.Violation("precedence", key+" module="+m.key(), fmt.Sprintf("remote %s resolved to commit %s, expected the newest pinned commit %s (%s)", m.Name, got.CommitID(), m.Commit, m.ID), nil)
		}
		if !m.Local {
			c.Count("remote_commit_choices_checked", 1)
		}
		wantTarget := m.Local && (sub == "." || sub == m.Dir)
		if got.IsTarget() != wantTarget {
			c.Violation("target-flag", key+" module="+m.key(), fmt.Sprintf("module %s IsTarget=%v, want %v", m.key(), got.IsTarget(), wantTarget), nil)
		}
		deps, err := got.ModuleDeps()
		if err != nil {
			c.Violation("deps-error", key+" module="+m.key(), fmt.Sprintf("ModuleDeps of %s failed on an unambiguous workspace: %v", m.key(), err), nil)
			continue
		}
		gotDeps := map[string]bool{}
		for _, d := range deps {
			gotDeps[c10KeyOfModule(d)] = d.IsDirect()
		}
		want := wantDeps[m.key()]
		if fmt.Sprint(sortedBoolMap(gotDeps)) != fmt.Sprint(sortedBoolMap(want)) {
			c.Violation("deps-differ", key+" module="+m.key(), fmt.Sprintf("deps of %s: got %v, import graph says %v (name→direct)", m.key(), sortedBoolMap(gotDeps), sortedBoolMap(want)), map[string]any{"ws": ws})
		}
		c.Count("module_deps_checked", 1)
		if len(want) > 0 {
			c.Count("module_deps_nonempty", 1)
		}
		for _, d := range want {
			if !d {
				c.Count("indirect_deps_seen", 1)
				break
			}
		}
	}
	if len(byKey) != len(res.mods) {
		c.Violation("module-set", key, fmt.Sprintf("module set has %d modules %v, expected %d", len(byKey), keysOf(byKey), len(res.mods)), nil)
	}
	if _, err := bufmodule.ModuleSetToDAG(w); err != nil {
		c.Violation("dag-error", key, fmt.Sprintf("ModuleSetToDAG failed on an acyclic workspace: %v", err), nil)
	}
	// image: closure of the target modules' files; non-target files only as imports; remote files carry name+commit
	image, err := bufimage.BuildImage(ctx, c09Logger, bufmodule.ModuleSetToModuleReadBucketWithOnlyProtoFiles(w))
	c.Eval(1)
	if err != nil {
		c.Violation("build-failed", key, fmt.Sprintf("BuildImage failed: %v", err), map[string]any{"ws": ws})
		return
	}
	T := map[string]bool{}
	imports := map[string][]string{}
	for _, m := range res.mods {
		for _, f := range m.Files {
			imports[f.Path] = f.Imports
			if m.Local && (sub == "." || sub == m.Dir) {
				T[f.Path] = true
			}
		}
	}
	for k, v := range c10WKTImports {
		imports[k] = v
	}
	want := model.Closure(T, imports)
	got := map[string]bool{}
	for _, f := range image.Files() {
		got[f.Path()] = true
		if !want[f.Path()] {
			c.Violation("extra-file", key+" path="+f.Path(), "image contains "+f.Path()+" which is not reachable from the targets", nil)
		}
		if f.IsImport() == T[f.Path()] {
			c.Violation("import-flag", key+" path="+f.Path(), fmt.Sprintf("%s: is_import=%v targeted=%v (files of non-target modules enter images only as imports)", f.Path(), f.IsImport(), T[f.Path()]), nil)
		}
		if m, ok := res.modOfPath[f.Path()]; ok {
			gotName := ""
			if f.FullName() != nil {
				gotName = f.FullName().String()
			}
			if gotName != m.Name {
				c.Violation("module-info", key+" path="+f.Path(), fmt.Sprintf("%s: module name %q, want %q", f.Path(), gotName, m.Name), nil)
			}
			if !m.Local && f.CommitID() != m.Commit {
				c.Violation("module-info", key+" path="+f.Path(), fmt.Sprintf("%s: commit %s, want %s", f.Path(), f.CommitID(), m.Commit), nil)
			}
			if m.Local && f.CommitID() != uuid.Nil {
				c.Violation("module-info", key+" path="+f.Path(), fmt.Sprintf("%s: local file carries commit %s", f.Path(), f.CommitID()), nil)
			}
			// content from the chosen module (marker)
			found := false
			for _, mt := range f.FileDescriptorProto().GetMessageType() {
				for _, fld := range mt.GetField() {
					for _, mf := range m.Files {
						if mf.Path == f.Path() && fld.GetName() == mf.Marker {
							found = true
						}
					}
				}
			}
			if !found {
				c.Violation("wrong-provider", key+" path="+f.Path(), fmt.Sprintf("%s was not taken from module %s (marker field absent)", f.Path(), m.ID), nil)
			}
			c.Count("image_files_checked", 1)
		}
	}
	for p := range want {
		if !got[p] {
			c.Violation("missing-file", key+" path="+p, "image lacks "+p, nil)
		}
	}
}

// c10WKTImports: the import statements of the built-in well-known types used by the workload.
var c10WKTImports = map[string][]string{
	"google/protobuf/type.proto": {"google/protobuf/any.proto", "google/protobuf/source_context.proto"},
	"google/protobuf/api.proto":  {"google/protobuf/source_context.proto", "google/protobuf/type.proto"},
}

func keysOf(m map[string]bufmodule.Module) []string {
	var out []string
	for k := range m {
		out = append(out, k)
	}
	sort.Strings(out)
	return out
}

func sortedBoolMap(m map[string]bool) []string {
	var out []string
	for k, v := range m {
		out = append(out, fmt.Sprintf("%s=%v", k, v))
	}
	sort.Strings(out)
	return out
}

type c10LsFile struct {
	Path       string `json:"path"`
	ImportPath string `json:"import_path"`
	Module     string `json:"module"`
	IsImport   bool   `json:"is_import"`
}

type c10DepNode struct {
	Name  string       `json:"name"`
	Local bool         `json:"local"`
	Deps  []c10DepNode `json:"deps"`
}

func c10CLI(c *core.C, ws *c10WS, res *c10Resolved, dir, keyBase string) {
	env := run.BufEnv(filepath.Join(c.Tmp, "home"), nil)
	inputs := []string{"."}
	m := ws.Locals[c.Rand.IntN(len(ws.Locals))]
	inputs = append(inputs, m.Dir)
	f := m.Files[c.Rand.IntN(len(m.Files))]
	inputs = append(inputs, m.Dir+"/"+f.Path, m.Dir+"/"+f.Path+"#include_package_files=true")
	for _, in := range inputs {
		key := keyBase + " cli-input=" + in
		b := run.Buf(dir, env, nil, "build", in, "-o", "-#format=binpb")
		l := run.Buf(dir, env, nil, "ls-files", in, "--include-imports", "--format", "json")
		c.Eval(2)
		if b.Code != 0 || l.Code != 0 {
			c.Violation("cli-failed", key, fmt.Sprintf("build exit %d (%s), ls-files exit %d (%s)", b.Code, clip(b.Stderr), l.Code, clip(l.Stderr)), nil)
			continue
		}
		im, err := img.Parse(b.Stdout)
		if err != nil {
			c.Violation("image-unparseable", key, err.Error(), nil)
			continue
		}
		built := map[string]bool{}
		for _, ff := range im.Files {
			built[ff.Path] = ff.IsImport
		}
		listed := map[string]bool{}
		for _, line := range strings.Split(strings.TrimSpace(string(l.Stdout)), "\n") {
			var lf c10LsFile
			if json.Unmarshal([]byte(line), &lf) == nil && lf.ImportPath != "" {
				listed[lf.ImportPath] = lf.IsImport
			}
		}
		if fmt.Sprint(sortedBoolMap(built)) != fmt.Sprint(sortedBoolMap(listed)) {
			c.Violation("lsfiles-differs-from-build", key, fmt.Sprintf("ls-files --include-imports lists %v; build puts %v in the image (path=is_import)", sortedBoolMap(listed), sortedBoolMap(built)), nil)
		}
		c.Count("lsfiles_vs_build", 1)
		// expected targets for file references
		if strings.HasSuffix(strings.Split(in, "#")[0], ".proto") {
			wantT := map[string]bool{f.Path: true}
			if strings.Contains(in, "include_package_files=true") {
				for _, g := range m.Files {
					if g.Pkg == f.Pkg && filepath.Dir(g.Path) == filepath.Dir(f.Path) {
						wantT[g.Path] = true
					}
				}
			}
			for p, isImp := range built {
				if wantT[p] == isImp {
					c.Violation("file-ref-targets", key+" path="+p, fmt.Sprintf("%s: is_import=%v but file reference targets=%v", p, isImp, model.SortedKeys(wantT)), nil)
				}
			}
			c.Count("file_ref_targets_checked", 1)
		}
	}
	// dep graph
	g := run.Buf(dir, env, nil, "dep", "graph", "--format", "json")
	c.Eval(1)
	if g.Code != 0 {
		c.Violation("cli-failed", keyBase+" cmd=dep-graph", fmt.Sprintf("exit %d %s", g.Code, clip(g.Stderr)), nil)
		return
	}
	var nodes []c10DepNode
	if err := json.Unmarshal(g.Stdout, &nodes); err != nil {
		c.Violation("cli-failed", keyBase+" cmd=dep-graph", "json: "+err.Error(), nil)
		return
	}
	// direct edges according to the import graph
	wantDeps := c10Deps(res)
	gotDirect := map[string]map[string]bool{}
	var walk func(n c10DepNode)
	walk = func(n c10DepNode) {
		if gotDirect[n.Name] == nil {
			gotDirect[n.Name] = map[string]bool{}
		}
		for _, d := range n.Deps {
			gotDirect[n.Name][d.Name] = true
			walk(d)
		}
	}
	for _, n := range nodes {
		walk(n)
	}
	for _, lm := range ws.Locals {
		want := map[string]bool{}
		for k, direct := range wantDeps[lm.key()] {
			if direct {
				want[k] = true
			}
		}
		if fmt.Sprint(model.SortedKeys(want)) != fmt.Sprint(model.SortedKeys(gotDirect[lm.key()])) {
			c.Violation("dep-graph-differs", keyBase+" module="+lm.key(), fmt.Sprintf("dep graph edges of %s: %v, import graph says %v", lm.key(), model.SortedKeys(gotDirect[lm.key()]), model.SortedKeys(want)), nil)
		}
	}
	c.Count("dep_graphs_checked", 1)
}

func c10OKCases(tier string) int {
	if tier == "thorough" {
		return 2000
	}
	return 240
}

func init() {
	core.Register(&core.Check{
		ID:    "C10",
		Level: "exploration",
		Rule: "PRNG-generated workspaces with a module-level import graph known by construction: 2–5 local modules (v2 buf.yaml / v1 buf.work.yaml + per-module buf.yaml and buf.lock, named or unnamed, three directory layouts), 0–3 remote names × 1–3 commits with shuffled create times served by an in-process ModuleDataProvider/CommitProvider, " +
			"locals that shadow a remote name, diamonds and indirect deps; every target choice (root, each module dir; via CLI also file references with and without include_package_files); error cases plant a module cycle (file-level acyclic), a duplicate path or a missing import. " +
			"distinct/non-trivial = distinct (config version, #locals, #remote commits, shadowing, plant, target kind) classes",
		Assumptions: []string{
			"module identity is compared by full name, or by bucket id (directory) for unnamed modules",
			"the registry stand-in replaces the BSR; digests in generated buf.lock files come from the independent b5 model",
			"CLI observations (ls-files, dep graph, file references) are made on workspaces without remote dependencies, because the CLI has no in-process registry",
		},
		Cases: func(tier string) int {
			if tier == "thorough" {
				return 2000 + 600
			}
			return 240 + 90
		},
		Run:      c10Run,
		Required: []string{"module_deps_checked", "module_deps_nonempty", "indirect_deps_seen", "remote_commit_choices_checked", "image_files_checked", "typed_errors_matched", "duplicate_resolving_operations", "duplicate_wkt_path_cases", "lsfiles_vs_build", "dep_graphs_checked", "file_ref_targets_checked"},
	})
}

// c10LocalKey is the module key (name, or bucket id = directory) of the local module in dir.
func c10LocalKey(ws *c10WS, dir string) string {
	for _, m := range ws.Locals {
		if m.Dir == dir {
			return m.key()
		}
	}
	return dir
}
