package checks

import (
	"fmt"
	"strings"

	"github.com/bufbuild/verifharness/gen"
)

// Catalogue part 3: changes of a surviving field (name, JSON name, type, cardinality, oneof, default, options).

// Documented compatibility groups (https://buf.build/docs/breaking/rules: FIELD_WIRE_COMPATIBLE_TYPE,
// FIELD_WIRE_JSON_COMPATIBLE_TYPE). Kinds not listed are singleton groups.
var c03WireGroup = map[string]int{"int32": 1, "int64": 1, "uint32": 1, "uint64": 1, "bool": 1, "sint32": 2, "sint64": 2, "string": 3, "bytes": 4,
	"fixed32": 5, "sfixed32": 5, "fixed64": 6, "sfixed64": 6, "double": 7, "float": 8}
var c03WireJSONGroup = map[string]int{"int32": 1, "uint32": 1, "int64": 2, "uint64": 2, "fixed32": 3, "sfixed32": 3, "fixed64": 4, "sfixed64": 4,
	"bool": 5, "sint32": 6, "sint64": 7, "string": 8, "bytes": 9, "double": 10, "float": 11}

// otherScalar picks a scalar kind different from `from`: by hint (rotating through all 14 others) or at random.
func otherScalar(e *c03Env, from string) string {
	fi := 0
	for i, t := range c03Scalars {
		if t == from {
			fi = i
		}
	}
	if e.Hint >= 0 {
		return c03Scalars[(fi+1+e.Hint%(len(c03Scalars)-1))%len(c03Scalars)]
	}
	return c03Scalars[(fi+1+e.R.IntN(len(c03Scalars)-1))%len(c03Scalars)]
}

var c03Scalars = []string{"double", "float", "int32", "int64", "uint32", "uint64", "sint32", "sint64", "fixed32", "fixed64", "sfixed32", "sfixed64", "bool", "string", "bytes"}

// typeRulesScalar: which of the three type rules the documentation promises for scalar a -> scalar b.
func typeRulesScalar(a, b string) []string {
	rules := []string{"FIELD_SAME_TYPE"}
	if c03WireGroup[a] != c03WireGroup[b] && !(a == "string" && b == "bytes") {
		rules = append(rules, "FIELD_WIRE_COMPATIBLE_TYPE")
	}
	if c03WireJSONGroup[a] != c03WireJSONGroup[b] {
		rules = append(rules, "FIELD_WIRE_JSON_COMPATIBLE_TYPE")
	}
	return rules
}

var allTypeRules = []string{"FIELD_SAME_TYPE", "FIELD_WIRE_COMPATIBLE_TYPE", "FIELD_WIRE_JSON_COMPATIBLE_TYPE"}
var allCardRules = []string{"FIELD_SAME_CARDINALITY", "FIELD_WIRE_JSON_COMPATIBLE_CARDINALITY", "FIELD_WIRE_COMPATIBLE_CARDINALITY"}

func fieldExp(rules []string, m *c03Msg, fl *gen.Field, extraTokens ...string) []c03Expect {
	var exp []c03Expect
	for _, r := range rules {
		exp = append(exp, c03Expect{Rule: r, AnyOf: append([]string{fl.Name, q(fl.Number)}, extraTokens...), File: m.File.Path, Spans: []string{"field:" + m.Full + "." + fl.Name}})
	}
	return exp
}

func is64(t string) bool {
	return t == "int64" || t == "uint64" || t == "sint64" || t == "fixed64" || t == "sfixed64"
}

// c03BigDefaults: integer defaults at the edges of their types and just above 2^53 / 2^24, each paired with a
// neighbour that differs by one — different values that any comparison through a narrower type conflates.
func c03BigDefaults(typ string) [][2]string {
	switch typ {
	case "int64", "sint64", "sfixed64":
		return [][2]string{{"9007199254740993", "9007199254740992"}, {"9223372036854775807", "9223372036854775806"},
			{"-9223372036854775808", "-9223372036854775807"}, {"-9007199254740993", "-9007199254740992"}}
	case "uint64", "fixed64":
		return [][2]string{{"18446744073709551615", "18446744073709551614"}, {"9007199254740993", "9007199254740992"},
			{"9223372036854775808", "9223372036854775807"}}
	case "int32", "sint32", "sfixed32":
		return [][2]string{{"2147483647", "2147483646"}, {"-2147483648", "-2147483647"}, {"16777217", "16777216"}}
	case "uint32", "fixed32":
		return [][2]string{{"4294967295", "4294967294"}, {"16777217", "16777216"}, {"2147483648", "2147483647"}}
	}
	return nil
}

func c03DefaultNeighbour(typ, cur string) string {
	for _, p := range c03BigDefaults(typ) {
		if p[0] == cur {
			return p[1]
		}
		if p[1] == cur {
			return p[0]
		}
	}
	return ""
}

func isZeroDefault(typ, v string) bool {
	switch v {
	case "", `""`, "0", "-0", "false", "0.0":
		return true
	}
	return false
}

func plainSingular(f c03Field) bool {
	return f.F.Oneof == "" && f.F.Kind != "map" && f.F.Kind != "group" && f.F.Label != "repeated" && f.F.Label != "required"
}

func init() {
	notGroup := func(f c03Field) bool { return f.F.Kind != "group" }
	get := func(e *c03Env, st c03Site) (*c03Msg, *gen.Field) {
		m := e.New.Msg(st.A)
		return m, m.Field(st.B)
	}

	// names ------------------------------------------------------------------------------------
	c03Reg("field-rename", []string{"FIELD_SAME_NAME", "FIELD_SAME_JSON_NAME"}, fieldSites(notGroup), func(e *c03Env, st c03Site) []c03Expect {
		m, fl := get(e, st)
		old := fl.Name
		var oldM *gen.Message
		if om := e.Old.Msg(st.A); om != nil {
			oldM = om.M
		}
		fl.Name = freshFieldName(old+"_renamed", m.M, oldM)
		rules := []string{"FIELD_SAME_NAME"}
		if fl.JSONName == "" {
			rules = append(rules, "FIELD_SAME_JSON_NAME") // the default JSON name follows the field name
		}
		return fieldExp(rules, m, fl, old)
	})
	c03Reg("extension-rename", []string{"FIELD_SAME_NAME"},
		func(x *c03Idx) []c03Site {
			var out []c03Site
			for _, ex := range x.Exts {
				if !isOptionExtension(ex) && !isWKTCopy(ex.File) {
					out = append(out, c03Site{Key: "extension:" + ex.Full, Kind: "extension", File: ex.File.Path, A: ex.Full})
				}
			}
			return out
		},
		func(e *c03Env, st c03Site) []c03Expect {
			ex := findExt(e.New, st.A)
			old := ex.F.Name
			ex.F.Name = old + "_renamed"
			newFull := strings.TrimSuffix(ex.Full, old) + ex.F.Name
			return []c03Expect{{Rule: "FIELD_SAME_NAME", AnyOf: []string{ex.F.Name, q(ex.F.Number)}, File: ex.File.Path, Spans: []string{"extension:" + newFull}}}
		})
	c03Reg("field-json-name-set", []string{"FIELD_SAME_JSON_NAME"}, fieldSites(func(f c03Field) bool { return notGroup(f) && f.F.JSONName == "" }),
		func(e *c03Env, st c03Site) []c03Expect {
			m, fl := get(e, st)
			fl.JSONName = "j" + gen.Pascal(fl.Name) + "Set"
			return fieldExp([]string{"FIELD_SAME_JSON_NAME"}, m, fl)
		})
	c03Reg("field-json-name-change", []string{"FIELD_SAME_JSON_NAME"}, fieldSites(func(f c03Field) bool { return f.F.JSONName != "" }),
		func(e *c03Env, st c03Site) []c03Expect {
			m, fl := get(e, st)
			fl.JSONName += "Changed"
			return fieldExp([]string{"FIELD_SAME_JSON_NAME"}, m, fl)
		})
	c03Reg("field-json-name-clear", []string{"FIELD_SAME_JSON_NAME"}, fieldSites(func(f c03Field) bool { return f.F.JSONName != "" }),
		func(e *c03Env, st c03Site) []c03Expect {
			m, fl := get(e, st)
			fl.JSONName = "" // generated explicit names ("j…") never equal the default lowerCamel name
			return fieldExp([]string{"FIELD_SAME_JSON_NAME"}, m, fl)
		})

	// types ---------------------------------------------------------------------------------------
	scalarField := func(f c03Field) bool { return f.F.Kind == "scalar" }
	c03Reg("field-type-scalar-to-scalar", allTypeRules, fieldSites(scalarField), func(e *c03Env, st c03Site) []c03Expect {
		m, fl := get(e, st)
		from := fl.Type
		to := otherScalar(e, from)
		retype(fl, "scalar", to)
		e.Tag = from + "->" + to
		return fieldExp(typeRulesScalar(from, to), m, fl)
	})
	for _, pr := range [][2]string{{"bytes", "string"}, {"string", "bytes"}} {
		pr := pr
		c03Reg("field-type-"+pr[0]+"-to-"+pr[1], typeRulesScalar(pr[0], pr[1]), fieldSites(func(f c03Field) bool { return scalarField(f) && f.F.Type == pr[0] }),
			func(e *c03Env, st c03Site) []c03Expect {
				m, fl := get(e, st)
				retype(fl, "scalar", pr[1])
				return fieldExp(typeRulesScalar(pr[0], pr[1]), m, fl)
			})
	}
	// another message / enum declared in the same file (no new import, same syntax)
	otherMsg := func(x *c03Idx, f *gen.File, not string) string {
		for _, m := range x.Msgs {
			if m.File == f && !m.Group && m.Full != not {
				return m.Full
			}
		}
		return ""
	}
	otherEnum := func(x *c03Idx, f *gen.File, not string) string {
		short := not[strings.LastIndex(not, ".")+1:]
		for _, en := range x.Enums {
			if en.File == f && en.Full != not && en.E.Name != short {
				return en.Full
			}
		}
		return ""
	}
	c03Reg("field-type-message-to-message", allTypeRules, fieldSites(func(f c03Field) bool { return f.F.Kind == "message" }), func(e *c03Env, st c03Site) []c03Expect {
		m, fl := get(e, st)
		to := otherMsg(e.New, m.File, fl.Type)
		if to == "" {
			return nil
		}
		retype(fl, "message", to)
		return fieldExp(allTypeRules, m, fl)
	})
	c03Reg("field-type-enum-to-enum", allTypeRules, fieldSites(func(f c03Field) bool { return f.F.Kind == "enum" }), func(e *c03Env, st c03Site) []c03Expect {
		m, fl := get(e, st)
		to := otherEnum(e.New, m.File, fl.Type)
		if to == "" {
			return nil
		}
		retype(fl, "enum", to)
		return fieldExp(allTypeRules, m, fl)
	})
	c03Reg("field-type-enum-to-int32", allTypeRules, fieldSites(func(f c03Field) bool { return f.F.Kind == "enum" }), func(e *c03Env, st c03Site) []c03Expect {
		m, fl := get(e, st)
		retype(fl, "scalar", "int32")
		return fieldExp(allTypeRules, m, fl)
	})
	c03Reg("field-type-message-to-bytes", allTypeRules, fieldSites(func(f c03Field) bool { return f.F.Kind == "message" }), func(e *c03Env, st c03Site) []c03Expect {
		m, fl := get(e, st)
		retype(fl, "scalar", "bytes")
		return fieldExp(allTypeRules, m, fl)
	})
	c03Reg("field-type-map-value", allTypeRules, fieldSites(func(f c03Field) bool { return f.F.Kind == "map" && f.F.MapValK == "scalar" }), func(e *c03Env, st c03Site) []c03Expect {
		m, fl := get(e, st)
		from := fl.MapVal
		to := otherScalar(e, from)
		fl.MapVal = to
		e.Tag = "map-value:" + from + "->" + to
		// the changed element is the value field of the synthetic entry message <FieldName>Entry
		return fieldExp(typeRulesScalar(from, to), m, fl, gen.Pascal(fl.Name)+"Entry")
	})

	// cardinality ------------------------------------------------------------------------------------
	scalarOrEnum := func(f c03Field) bool { return f.F.Kind == "scalar" || f.F.Kind == "enum" }
	c03Reg("field-proto3-optional-remove", []string{"FIELD_SAME_CARDINALITY"},
		fieldSites(func(f c03Field) bool {
			return f.Msg.File.Syntax == "proto3" && f.F.Label == "optional" && scalarOrEnum(f)
		}),
		func(e *c03Env, st c03Site) []c03Expect {
			m, fl := get(e, st)
			fl.Label = ""
			return fieldExp([]string{"FIELD_SAME_CARDINALITY"}, m, fl)
		})
	c03Reg("field-proto3-optional-add", []string{"FIELD_SAME_CARDINALITY"},
		fieldSites(func(f c03Field) bool {
			return f.Msg.File.Syntax == "proto3" && f.F.Label == "" && f.F.Oneof == "" && scalarOrEnum(f)
		}),
		func(e *c03Env, st c03Site) []c03Expect {
			m, fl := get(e, st)
			fl.Label = "optional"
			return fieldExp([]string{"FIELD_SAME_CARDINALITY"}, m, fl)
		})
	c03Reg("field-singular-to-repeated", allCardRules, fieldSites(func(f c03Field) bool { return plainSingular(f) && (f.F.Kind == "scalar" || f.F.Kind == "message") }),
		func(e *c03Env, st c03Site) []c03Expect {
			m, fl := get(e, st)
			fl.Label, fl.Default = "repeated", ""
			fl.Options = delOpt(fl.Options, "ctype")
			return fieldExp(allCardRules, m, fl)
		})
	c03Reg("field-repeated-to-singular", allCardRules, fieldSites(func(f c03Field) bool { return f.F.Label == "repeated" && f.F.Kind != "group" }),
		func(e *c03Env, st c03Site) []c03Expect {
			m, fl := get(e, st)
			fl.Label = singularLabel(m.File.Syntax)
			fl.Options = delOpt(fl.Options, "packed")
			return fieldExp(allCardRules, m, fl)
		})
	c03Reg("field-repeated-to-map", []string{"FIELD_SAME_CARDINALITY", "FIELD_WIRE_JSON_COMPATIBLE_CARDINALITY"},
		fieldSites(func(f c03Field) bool { return f.F.Label == "repeated" && f.F.Kind != "group" }),
		func(e *c03Env, st c03Site) []c03Expect {
			m, fl := get(e, st)
			retype(fl, "map", "")
			fl.Label, fl.MapKey, fl.MapVal, fl.MapValK = "", "string", "string", "scalar"
			return fieldExp([]string{"FIELD_SAME_CARDINALITY", "FIELD_WIRE_JSON_COMPATIBLE_CARDINALITY"}, m, fl)
		})
	c03Reg("field-map-to-repeated", []string{"FIELD_SAME_CARDINALITY", "FIELD_WIRE_JSON_COMPATIBLE_CARDINALITY"},
		fieldSites(func(f c03Field) bool { return f.F.Kind == "map" }),
		func(e *c03Env, st c03Site) []c03Expect {
			m, fl := get(e, st)
			retype(fl, "scalar", "string")
			fl.Label = "repeated"
			return fieldExp([]string{"FIELD_SAME_CARDINALITY", "FIELD_WIRE_JSON_COMPATIBLE_CARDINALITY"}, m, fl)
		})
	c03Reg("field-map-to-singular", allCardRules, fieldSites(func(f c03Field) bool { return f.F.Kind == "map" }),
		func(e *c03Env, st c03Site) []c03Expect {
			m, fl := get(e, st)
			retype(fl, "scalar", "string")
			fl.Label = singularLabel(m.File.Syntax)
			return fieldExp(allCardRules, m, fl)
		})
	proto2 := func(f c03Field) bool { return f.Msg.File.Syntax == "proto2" || f.Msg.File.Syntax == "" }
	c03Reg("field-optional-to-required", append(append([]string{}, allCardRules...), "MESSAGE_SAME_REQUIRED_FIELDS"),
		fieldSites(func(f c03Field) bool {
			return proto2(f) && f.F.Label == "optional" && f.F.Kind == "scalar" && f.F.Oneof == ""
		}),
		func(e *c03Env, st c03Site) []c03Expect {
			m, fl := get(e, st)
			fl.Label = "required"
			exp := fieldExp(allCardRules, m, fl)
			return append(exp, c03Expect{Rule: "MESSAGE_SAME_REQUIRED_FIELDS", AnyOf: []string{m.M.Name, q(fl.Number)}, File: m.File.Path, Spans: []string{msgSpanKey(e.New, m.Full)}})
		})
	c03Reg("field-required-to-optional", append(append([]string{}, allCardRules...), "MESSAGE_SAME_REQUIRED_FIELDS"),
		fieldSites(func(f c03Field) bool { return f.F.Label == "required" && f.F.Kind != "group" }),
		func(e *c03Env, st c03Site) []c03Expect {
			m, fl := get(e, st)
			fl.Label = "optional"
			exp := fieldExp(allCardRules, m, fl)
			return append(exp, c03Expect{Rule: "MESSAGE_SAME_REQUIRED_FIELDS", AnyOf: []string{m.M.Name, q(fl.Number)}, File: m.File.Path, Spans: []string{msgSpanKey(e.New, m.Full)}})
		})

	// oneof membership ---------------------------------------------------------------------------------
	c03Reg("field-into-oneof", []string{"FIELD_SAME_ONEOF"},
		fieldSites(func(f c03Field) bool { return plainSingular(f) && len(oneofNames(f.Msg.M)) > 0 }),
		func(e *c03Env, st c03Site) []c03Expect {
			m, fl := get(e, st)
			names := oneofNames(m.M)
			fl.Label, fl.Oneof = "", names[e.R.IntN(len(names))]
			return fieldExp([]string{"FIELD_SAME_ONEOF"}, m, fl)
		})
	c03Reg("field-out-of-oneof", []string{"FIELD_SAME_ONEOF"},
		fieldSites(func(f c03Field) bool {
			return f.F.Oneof != "" && f.F.Kind != "group" && len(oneofMembers(f.Msg.M, f.F.Oneof)) >= 2
		}),
		func(e *c03Env, st c03Site) []c03Expect {
			m, fl := get(e, st)
			fl.Oneof, fl.Label = "", singularLabel(m.File.Syntax)
			return fieldExp([]string{"FIELD_SAME_ONEOF"}, m, fl)
		})
	c03Reg("field-between-oneofs", []string{"FIELD_SAME_ONEOF"},
		fieldSites(func(f c03Field) bool {
			return f.F.Oneof != "" && len(oneofMembers(f.Msg.M, f.F.Oneof)) >= 2 && len(oneofNames(f.Msg.M)) >= 2
		}),
		func(e *c03Env, st c03Site) []c03Expect {
			m, fl := get(e, st)
			for _, o := range oneofNames(m.M) {
				if o != fl.Oneof {
					fl.Oneof = o
					break
				}
			}
			return fieldExp([]string{"FIELD_SAME_ONEOF"}, m, fl)
		})

	// defaults (proto2 / editions) -----------------------------------------------------------------------
	canDefault := func(f c03Field) bool {
		return f.Msg.File.Syntax != "proto3" && plainSingularOrOneof(f) && (f.F.Kind == "scalar" || f.F.Kind == "enum")
	}
	otherDefault := func(x *c03Idx, fl *gen.Field, cur string) string {
		switch {
		case fl.Kind == "enum":
			en := x.Enum(fl.Type)
			if en == nil {
				return ""
			}
			// another value means another NUMBER: an alias of the current default is the same value,
			// and switching to it is not a documented breaking change
			curNum := en.E.Values[0].Number
			for _, v := range en.E.Values {
				if v.Name == cur {
					curNum = v.Number
				}
			}
			for i, v := range en.E.Values {
				if i > 0 && v.Name != cur && v.Number != en.E.Values[0].Number && v.Number != curNum {
					return v.Name
				}
			}
			return ""
		case fl.Type == "bool":
			if cur == "true" {
				return "" // false is the implicit default; use removal instead
			}
			return "true"
		case fl.Type == "string" || fl.Type == "bytes":
			if cur == `"changed"` {
				return `"changed2"`
			}
			return `"changed"`
		case fl.Type == "float" || fl.Type == "double":
			if cur == "2.5" {
				return "3.5"
			}
			return "2.5"
		default:
			if nb := c03DefaultNeighbour(fl.Type, cur); nb != "" {
				return nb
			}
			if cur == "77" {
				return "78"
			}
			return "77"
		}
	}
	c03Reg("field-default-change", []string{"FIELD_SAME_DEFAULT"}, fieldSites(func(f c03Field) bool { return canDefault(f) && f.F.Default != "" }),
		func(e *c03Env, st c03Site) []c03Expect {
			m, fl := get(e, st)
			nd := otherDefault(e.New, fl, fl.Default)
			if nd == "" {
				return nil
			}
			e.Tag = fl.Kind + ":" + fl.Type
			fl.Default = nd
			return fieldExp([]string{"FIELD_SAME_DEFAULT"}, m, fl)
		})
	// a default at the edge of its type moved by one (a comparison through float64 / a narrower int conflates them)
	c03Reg("field-default-neighbour", []string{"FIELD_SAME_DEFAULT"},
		fieldSites(func(f c03Field) bool {
			return canDefault(f) && f.F.Kind == "scalar" && c03DefaultNeighbour(f.F.Type, f.F.Default) != ""
		}),
		func(e *c03Env, st c03Site) []c03Expect {
			m, fl := get(e, st)
			e.Tag = fl.Type + ":" + fl.Default
			fl.Default = c03DefaultNeighbour(fl.Type, fl.Default)
			return fieldExp([]string{"FIELD_SAME_DEFAULT"}, m, fl)
		})
	c03Reg("field-default-add", []string{"FIELD_SAME_DEFAULT"}, fieldSites(func(f c03Field) bool { return canDefault(f) && f.F.Default == "" }),
		func(e *c03Env, st c03Site) []c03Expect {
			m, fl := get(e, st)
			if _, implicit := hasOpt(fl.Options, "features.field_presence"); implicit {
				return nil
			}
			nd := otherDefault(e.New, fl, "")
			if nd == "" {
				return nil
			}
			e.Tag = fl.Kind + ":" + fl.Type
			fl.Default = nd
			return fieldExp([]string{"FIELD_SAME_DEFAULT"}, m, fl)
		})
	c03Reg("field-default-remove", []string{"FIELD_SAME_DEFAULT"},
		fieldSites(func(f c03Field) bool {
			return canDefault(f) && f.F.Default != "" && !isZeroDefault(f.F.Type, f.F.Default)
		}),
		func(e *c03Env, st c03Site) []c03Expect {
			m, fl := get(e, st)
			if fl.Kind == "enum" {
				if en := e.New.Enum(fl.Type); en == nil || en.E.Values[0].Name == fl.Default {
					return nil
				}
			}
			e.Tag = fl.Kind + ":" + fl.Type
			fl.Default = ""
			return fieldExp([]string{"FIELD_SAME_DEFAULT"}, m, fl)
		})

	// jstype / ctype ---------------------------------------------------------------------------------------
	int64Field := func(f c03Field) bool { return f.F.Kind == "scalar" && is64(f.F.Type) }
	c03Reg("field-jstype-set", []string{"FIELD_SAME_JSTYPE"}, fieldSites(func(f c03Field) bool { _, ok := hasOpt(f.F.Options, "jstype"); return int64Field(f) && !ok }),
		func(e *c03Env, st c03Site) []c03Expect {
			m, fl := get(e, st)
			fl.Options = setOpt(fl.Options, "jstype", []string{"JS_STRING", "JS_NUMBER"}[e.R.IntN(2)])
			return fieldExp([]string{"FIELD_SAME_JSTYPE"}, m, fl)
		})
	c03Reg("field-jstype-change", []string{"FIELD_SAME_JSTYPE"}, fieldSites(func(f c03Field) bool { _, ok := hasOpt(f.F.Options, "jstype"); return int64Field(f) && ok }),
		func(e *c03Env, st c03Site) []c03Expect {
			m, fl := get(e, st)
			v, _ := hasOpt(fl.Options, "jstype")
			nv := "JS_STRING"
			if v == "JS_STRING" {
				nv = "JS_NUMBER"
			}
			fl.Options = setOpt(fl.Options, "jstype", nv)
			return fieldExp([]string{"FIELD_SAME_JSTYPE"}, m, fl)
		})
	c03Reg("field-jstype-clear", []string{"FIELD_SAME_JSTYPE"}, fieldSites(func(f c03Field) bool {
		v, ok := hasOpt(f.F.Options, "jstype")
		return int64Field(f) && ok && v != "JS_NORMAL"
	}),
		func(e *c03Env, st c03Site) []c03Expect {
			m, fl := get(e, st)
			fl.Options = delOpt(fl.Options, "jstype")
			return fieldExp([]string{"FIELD_SAME_JSTYPE"}, m, fl)
		})
	strField := func(f c03Field) bool {
		return f.F.Kind == "scalar" && (f.F.Type == "string" || f.F.Type == "bytes") && f.F.Label != "repeated"
	}
	c03Reg("field-ctype-set", []string{"FIELD_SAME_CPP_STRING_TYPE"}, fieldSites(func(f c03Field) bool { _, ok := hasOpt(f.F.Options, "ctype"); return strField(f) && !ok }),
		func(e *c03Env, st c03Site) []c03Expect {
			m, fl := get(e, st)
			fl.Options = setOpt(fl.Options, "ctype", []string{"CORD", "STRING_PIECE"}[e.R.IntN(2)])
			return fieldExp([]string{"FIELD_SAME_CPP_STRING_TYPE"}, m, fl)
		})
	c03Reg("field-ctype-change", []string{"FIELD_SAME_CPP_STRING_TYPE"}, fieldSites(func(f c03Field) bool { _, ok := hasOpt(f.F.Options, "ctype"); return strField(f) && ok }),
		func(e *c03Env, st c03Site) []c03Expect {
			m, fl := get(e, st)
			v, _ := hasOpt(fl.Options, "ctype")
			nv := "CORD"
			if v == "CORD" {
				nv = "STRING_PIECE"
			}
			fl.Options = setOpt(fl.Options, "ctype", nv)
			return fieldExp([]string{"FIELD_SAME_CPP_STRING_TYPE"}, m, fl)
		})
	c03Reg("field-ctype-clear", []string{"FIELD_SAME_CPP_STRING_TYPE"}, fieldSites(func(f c03Field) bool {
		v, ok := hasOpt(f.F.Options, "ctype")
		return strField(f) && ok && v == "CORD" // STRING_PIECE -> STRING is documented as not breaking
	}),
		func(e *c03Env, st c03Site) []c03Expect {
			m, fl := get(e, st)
			fl.Options = delOpt(fl.Options, "ctype")
			return fieldExp([]string{"FIELD_SAME_CPP_STRING_TYPE"}, m, fl)
		})

	// editions features on a field -----------------------------------------------------------------------
	c03Reg("field-utf8-validation-none", []string{"FIELD_SAME_UTF8_VALIDATION"},
		fieldSites(func(f c03Field) bool {
			_, preset := hasOpt(f.F.Options, "features.utf8_validation")
			return f.Msg.File.Syntax == "editions" && f.F.Kind == "scalar" && f.F.Type == "string" && !preset
		}),
		func(e *c03Env, st c03Site) []c03Expect {
			m, fl := get(e, st)
			fl.Options = setOpt(fl.Options, "features.utf8_validation", "NONE")
			return fieldExp([]string{"FIELD_SAME_UTF8_VALIDATION"}, m, fl)
		})
	_ = fmt.Sprint
}

func plainSingularOrOneof(f c03Field) bool {
	return f.F.Kind != "map" && f.F.Kind != "group" && f.F.Label != "repeated"
}
