package checks

import (
	"fmt"
	"math/rand/v2"
	"sort"
	"strings"

	"github.com/bufbuild/verifharness/gen"
)

// Workload of C12: the shared generator gives nested types, maps, oneofs, groups, services,
// scalar extensions and scalar custom options. c12Decorate adds the remaining shapes the
// property quantifies over: message- and enum-typed custom options with google.protobuf.Any
// payloads (singular, repeated, nested, map), extensions nested in messages, message- and
// enum-typed extensions, recursive and mutually recursive messages, files without any type,
// public (also relayed through a type-less file) and weak imports, non-targeted modules.

type c12Workload struct {
	schema *gen.Schema
	// texts: module index -> module-relative path -> source
	texts []map[string]string
	// notTargeted: module index -> the module is a dependency only (its files are imports)
	notTargeted []bool
	features    map[string]bool
	typeless    []string
}

func (w *c12Workload) featureList() []string {
	var out []string
	for k := range w.features {
		out = append(out, k)
	}
	sort.Strings(out)
	return out
}

func c12TopMessages(f *gen.File) []string {
	var out []string
	for _, m := range f.Messages {
		out = append(out, f.Package+"."+m.Name)
	}
	return out
}

func c12AddExtraImport(f *gen.File, p string) {
	if p == f.Path {
		return
	}
	for _, im := range f.ExtraImports {
		if im.Path == p {
			return
		}
	}
	f.ExtraImports = append(f.ExtraImports, gen.Import{Path: p})
}

// c12AnyLit is the text-format literal of an Any holding an empty t. The compiler accepts two hosts in the type URL;
// which one is written is a function of the type name (about one literal in three uses the second).
func c12AnyLit(t string) string {
	h := 0
	for i := 0; i < len(t); i++ {
		h += int(t[i])
	}
	host := "type.googleapis.com"
	if h%3 == 0 {
		host = "type.googleprod.com"
	}
	return fmt.Sprintf("{ [%s/%s]: {} }", host, t)
}

// c12Generate builds the workload of one case.
func c12Generate(r *rand.Rand, thorough bool, allTargeted bool) *c12Workload {
	cfg := gen.DefaultConfig()
	cfg.Modules = 1 + r.IntN(2)
	cfg.MinFiles, cfg.MaxFiles = 2, 4
	cfg.Groups, cfg.Streaming = true, true
	cfg.Rich = r.IntN(3) == 0
	if thorough {
		cfg.Modules = 1 + r.IntN(3)
		cfg.MaxFiles = 3 + r.IntN(4)
		cfg.MaxDepth = 2 + r.IntN(2)
	}
	s := gen.Generate(r, cfg)
	w := &c12Workload{schema: s, features: map[string]bool{}}
	files := s.AllFiles() // generation order: a file only refers to files before it
	pos := map[*gen.File]int{}
	for i, f := range files {
		pos[f] = i
	}
	opts := files[0] // the custom option definitions (proto2)
	op := opts.Package
	uniq := 0
	next := func(base string) string {
		uniq++
		return fmt.Sprintf("%s_%d", base, uniq)
	}

	// ---- custom options with message / enum types and Any payloads ------------------------
	opts.Enums = append(opts.Enums, &gen.Enum{Name: "Level", Comment: "Level ranks things.", Values: []*gen.EnumValue{
		{Name: "LEVEL_UNSPECIFIED", Number: 0, Comment: "Unspecified."}, {Name: "LEVEL_LOW", Number: 1, Comment: "Low."}, {Name: "LEVEL_HIGH", Number: 2, Comment: "High."}}})
	anyT := "google.protobuf.Any"
	opts.Messages = append(opts.Messages,
		&gen.Message{Name: "Meta", Comment: "Meta is an option payload.",
			Nested: []*gen.Message{{Name: "Inner", Comment: "Inner nests an Any.", Fields: []*gen.Field{
				{Name: "deep", Number: 1, Label: "optional", Kind: "message", Type: anyT, Comment: "Deep payload."}}}},
			Fields: []*gen.Field{
				{Name: "label", Number: 1, Label: "optional", Kind: "scalar", Type: "string", Comment: "Label."},
				{Name: "payload", Number: 2, Label: "optional", Kind: "message", Type: anyT, Comment: "Payload."},
				{Name: "more", Number: 3, Label: "repeated", Kind: "message", Type: anyT, Comment: "More payloads."},
				{Name: "inner", Number: 4, Label: "optional", Kind: "message", Type: op + ".Meta.Inner", Comment: "Inner."},
				{Name: "by_key", Number: 5, Kind: "map", MapKey: "string", MapVal: anyT, MapValK: "message", Comment: "Keyed payloads."},
				{Name: "rank", Number: 6, Label: "optional", Kind: "enum", Type: op + ".Level", Comment: "Rank."},
			}},
		&gen.Message{Name: "Scope", Comment: "Scope holds a nested option definition.",
			Fields: []*gen.Field{{Name: "unused", Number: 1, Label: "optional", Kind: "scalar", Type: "bool", Comment: "Unused."}},
			Extends: []*gen.Extend{{Extendee: "google.protobuf.FieldOptions", Fields: []*gen.Field{
				{Name: "scoped_tag", Number: 50004, Label: "optional", Kind: "scalar", Type: "string", Comment: "A scoped tag."}}}}},
	)
	opts.Extends = append(opts.Extends,
		&gen.Extend{Extendee: "google.protobuf.MessageOptions", Fields: []*gen.Field{
			{Name: "message_meta", Number: 50002, Label: "optional", Kind: "message", Type: op + ".Meta", Comment: "Message meta."}}},
		&gen.Extend{Extendee: "google.protobuf.FieldOptions", Fields: []*gen.Field{
			{Name: "field_rank", Number: 50003, Label: "optional", Kind: "enum", Type: op + ".Level", Comment: "Field rank."}}},
		&gen.Extend{Extendee: "google.protobuf.ServiceOptions", Fields: []*gen.Field{
			{Name: "service_tag", Number: 50001, Label: "optional", Kind: "scalar", Type: "string", Comment: "Service tag."}}},
		&gen.Extend{Extendee: "google.protobuf.EnumOptions", Fields: []*gen.Field{
			{Name: "enum_meta", Number: 50001, Label: "optional", Kind: "message", Type: op + ".Meta", Comment: "Enum meta."}}},
		&gen.Extend{Extendee: "google.protobuf.MethodOptions", Fields: []*gen.Field{
			{Name: "method_metas", Number: 50002, Label: "repeated", Kind: "message", Type: op + ".Meta", Comment: "Method metas."}}},
		&gen.Extend{Extendee: "google.protobuf.ExtensionRangeOptions", Fields: []*gen.Field{
			{Name: "range_tag", Number: 50001, Label: "optional", Kind: "scalar", Type: "string", Comment: "Range tag."},
			{Name: "range_meta", Number: 50002, Label: "optional", Kind: "message", Type: op + ".Meta", Comment: "Range meta."}}},
	)
	// payload candidates for a using file: its own top-level messages and those of earlier files
	payload := func(f *gen.File) string {
		var cands []string
		for _, g := range files[1 : pos[f]+1] {
			cands = append(cands, c12TopMessages(g)...)
		}
		if len(cands) == 0 {
			return ""
		}
		t := cands[r.IntN(len(cands))]
		for _, g := range files {
			if g != f && strings.HasPrefix(t, g.Package+".") {
				for _, m := range g.Messages {
					if g.Package+"."+m.Name == t {
						c12AddExtraImport(f, g.Path)
					}
				}
			}
		}
		return t
	}
	metaLit := func(f *gen.File) string {
		t := payload(f)
		if t == "" {
			return `{ label: "plain" }`
		}
		switch r.IntN(6) {
		case 0:
			w.features["any-singular"] = true
			return fmt.Sprintf(`{ label: "p", payload: %s }`, c12AnyLit(t))
		case 1:
			w.features["any-repeated"] = true
			t2 := payload(f)
			return fmt.Sprintf(`{ more: [%s, %s] }`, c12AnyLit(t), c12AnyLit(t2))
		case 2:
			w.features["any-nested"] = true
			return fmt.Sprintf(`{ inner: { deep: %s }, rank: LEVEL_LOW }`, c12AnyLit(t))
		case 3:
			w.features["any-map"] = true
			return fmt.Sprintf(`{ by_key: { key: "k", value: %s } }`, c12AnyLit(t))
		case 4:
			return `{ label: "plain", rank: LEVEL_HIGH }`
		default:
			w.features["any-singular"] = true
			return fmt.Sprintf(`{ payload: %s }`, c12AnyLit(t))
		}
	}
	for _, f := range files[1:] {
		var walk func(m *gen.Message)
		walk = func(m *gen.Message) {
			if r.IntN(5) == 0 {
				m.Options = append(m.Options, gen.Opt{Name: "(" + op + ".message_meta)", Value: metaLit(f)})
				w.features["opt-message-typed"] = true
			}
			for _, fl := range m.Fields {
				if fl.Kind == "group" {
					continue
				}
				switch r.IntN(14) {
				case 0:
					fl.Options = append(fl.Options, gen.Opt{Name: "(" + op + ".field_rank)", Value: "LEVEL_HIGH"})
					w.features["opt-enum-typed"] = true
				case 1:
					fl.Options = append(fl.Options, gen.Opt{Name: "(" + op + ".Scope.scoped_tag)", Value: `"z"`})
					w.features["opt-nested-definition"] = true
				}
			}
			for _, e := range m.Enums {
				if r.IntN(4) == 0 {
					e.Options = append(e.Options, gen.Opt{Name: "(" + op + ".enum_meta)", Value: metaLit(f)})
				}
			}
			for i := range m.ExtRanges {
				switch r.IntN(4) {
				case 0:
					m.ExtRanges[i].Options = append(m.ExtRanges[i].Options, gen.Opt{Name: "(" + op + ".range_tag)", Value: `"r"`})
					w.features["opt-on-extension-range"] = true
				case 1:
					m.ExtRanges[i].Options = append(m.ExtRanges[i].Options, gen.Opt{Name: "(" + op + ".range_meta)", Value: metaLit(f)})
					w.features["opt-on-extension-range"] = true
				}
			}
			for _, n := range m.Nested {
				walk(n)
			}
		}
		for _, m := range f.Messages {
			walk(m)
		}
		for _, e := range f.Enums {
			if r.IntN(4) == 0 {
				e.Options = append(e.Options, gen.Opt{Name: "(" + op + ".enum_meta)", Value: metaLit(f)})
				w.features["opt-on-enum"] = true
			}
			if r.IntN(5) == 0 && len(e.Values) > 1 {
				e.Values[1].Options = append(e.Values[1].Options, gen.Opt{Name: "(" + op + ".value_tag)", Value: `"v"`})
			}
		}
		for _, sv := range f.Services {
			if r.IntN(2) == 0 {
				sv.Options = append(sv.Options, gen.Opt{Name: "(" + op + ".service_tag)", Value: `"svc"`})
				w.features["opt-on-service"] = true
			}
			for _, m := range sv.Methods {
				if r.IntN(4) == 0 {
					m.Options = append(m.Options, gen.Opt{Name: "(" + op + ".method_metas)", Value: metaLit(f)}, gen.Opt{Name: "(" + op + ".method_metas)", Value: metaLit(f)})
					w.features["opt-on-method-repeated"] = true
				}
			}
		}
	}

	// ---- recursion ---------------------------------------------------------------------------
	for _, f := range files[1:] {
		if len(f.Messages) > 0 && r.IntN(3) == 0 {
			m := f.Messages[r.IntN(len(f.Messages))]
			m.Fields = append(m.Fields, &gen.Field{Name: "children", Number: 800, Label: "repeated", Kind: "message", Type: f.Package + "." + m.Name, Comment: "Recursive."})
			w.features["self-recursive"] = true
		}
		if len(f.Messages) > 1 && r.IntN(4) == 0 {
			a, b := f.Messages[0], f.Messages[1]
			a.Fields = append(a.Fields, &gen.Field{Name: "peer_b", Number: 801, Label: "repeated", Kind: "message", Type: f.Package + "." + b.Name, Comment: "Peer."})
			b.Fields = append(b.Fields, &gen.Field{Name: "peer_a", Number: 801, Label: "repeated", Kind: "message", Type: f.Package + "." + a.Name, Comment: "Peer."})
			w.features["mutually-recursive"] = true
		}
	}

	// ---- message/enum typed extensions, extensions nested in messages ------------------------
	var ext2 []*gen.File
	for _, f := range files[1:] {
		if (f.Syntax == "proto2" || f.Syntax == "editions") && len(f.Messages) > 0 {
			ext2 = append(ext2, f)
		}
	}
	if len(ext2) > 0 && r.IntN(4) != 0 {
		hostF := ext2[r.IntN(len(ext2))]
		host := hostF.Messages[r.IntN(len(hostF.Messages))]
		host.ExtRanges = append(host.ExtRanges, gen.Range{Lo: 5000, Hi: 5099})
		hostName := hostF.Package + "." + host.Name
		tag := 5000
		var later []*gen.File
		for _, f := range ext2 {
			if pos[f] >= pos[hostF] {
				later = append(later, f)
			}
		}
		idx := s.TypeIndex()
		nx := 1 + r.IntN(3)
		for i := 0; i < nx; i++ {
			g := later[r.IntN(len(later))]
			label := "optional"
			if g.Syntax == "editions" {
				label = ""
			}
			// the extension's type: a message or enum declared in g or before it
			var msgs, enums []string
			for name, ti := range idx {
				if pos[ti.File] <= pos[g] && pos[ti.File] > 0 && ti.Parent == nil {
					if ti.IsEnum {
						enums = append(enums, name)
					} else {
						msgs = append(msgs, name)
					}
				}
			}
			sort.Strings(msgs)
			sort.Strings(enums)
			fl := &gen.Field{Name: next("link_ext"), Number: tag, Label: label, Comment: "A typed extension."}
			tag++
			switch {
			case len(enums) > 0 && r.IntN(3) == 0:
				fl.Kind, fl.Type = "enum", enums[r.IntN(len(enums))]
				w.features["ext-enum-typed"] = true
			case len(msgs) > 0:
				fl.Kind, fl.Type = "message", msgs[r.IntN(len(msgs))]
				w.features["ext-message-typed"] = true
			default:
				fl.Kind, fl.Type = "scalar", "string"
			}
			x := &gen.Extend{Extendee: hostName, Fields: []*gen.Field{fl}}
			if r.IntN(2) == 0 && len(g.Messages) > 0 {
				scope := g.Messages[r.IntN(len(g.Messages))]
				scope.Extends = append(scope.Extends, x)
				w.features["ext-nested-in-message"] = true
			} else {
				g.Extends = append(g.Extends, x)
			}
			if r.IntN(3) == 0 {
				fl.Options = append(fl.Options, gen.Opt{Name: "(" + op + ".field_tag)", Value: `"on-ext"`})
				w.features["opt-on-extension"] = true
			}
		}
	}

	// ---- files without any type ---------------------------------------------------------------
	var blank *gen.File
	blankPath := ""
	blankImporterPos := 1 << 30 // earliest file that imports the type-less file
	blankImportedPos := -1      // latest file the type-less file imports
	if r.IntN(20) < 7 {
		mod := s.Modules[r.IntN(len(s.Modules))]
		host := mod.Files[r.IntN(len(mod.Files))]
		pkg := host.Package
		if r.IntN(3) == 0 {
			pkg = host.Package[:strings.LastIndex(host.Package, ".")] + ".blank.v1"
		}
		blank = &gen.File{Path: strings.ReplaceAll(pkg, ".", "/") + "/" + next("blank") + ".proto", Syntax: []string{"proto2", "proto3", "editions"}[r.IntN(3)], Package: pkg,
			Header: "A file without any type."}
		if r.IntN(2) == 0 {
			blank.Options = append(blank.Options, gen.Opt{Name: "java_multiple_files", Value: "true"})
		}
		if r.IntN(3) == 0 {
			blank.Options = append(blank.Options, gen.Opt{Name: "(" + op + ".file_tags)", Value: `"blank"`})
		}
		mod.Files = append(mod.Files, blank)
		blankPath = blank.Path
		w.typeless = append(w.typeless, blank.Path)
		w.features["typeless-file"] = true
		if r.IntN(2) == 0 {
			// somebody imports it (an unused import)
			imp := files[1+r.IntN(len(files)-1)]
			c12AddExtraImport(imp, blank.Path)
			blankImporterPos = pos[imp]
			w.features["typeless-file-imported"] = true
		}
	}

	// ---- render, then import surgery: public relays and weak imports ------------------------
	// A file c that imports b directly may instead import a relay a with `import public "b"`.
	// The relay is an earlier file (never depends on c) or the type-less file.
	type surgery struct {
		file     *gen.File
		old, new string // import paths; new == "" : weak
	}
	var ops []surgery
	for _, c := range files[1:] {
		if r.IntN(3) != 0 {
			continue
		}
		var direct []string
		for _, im := range s.ImportsOf(c) {
			if !im.Public && !im.Weak && im.Path != blankPath {
				direct = append(direct, im.Path)
			}
		}
		if len(direct) == 0 {
			continue
		}
		b := direct[r.IntN(len(direct))]
		if r.IntN(8) == 0 {
			ops = append(ops, surgery{file: c, old: b})
			w.features["weak-import"] = true
			continue
		}
		var relays []*gen.File
		bPos := -1
		if bf := s.FileByPath(b); bf != nil {
			bPos = pos[bf]
		}
		for _, a := range files[1:pos[c]] {
			if pos[a] > bPos && a.Path != b {
				relays = append(relays, a)
			}
		}
		if blank != nil && bPos < min(blankImporterPos, pos[c]) && blankImportedPos < pos[c] {
			// everything the type-less file imports stays before everything that imports it: no cycle
			relays = append(relays, blank)
		}
		if len(relays) == 0 {
			continue
		}
		a := relays[r.IntN(len(relays))]
		found := false
		for i, im := range a.ExtraImports {
			if im.Path == b {
				a.ExtraImports[i].Public = true
				found = true
			}
		}
		if !found {
			a.ExtraImports = append(a.ExtraImports, gen.Import{Path: b, Public: true})
		}
		a.PublicImports = append(a.PublicImports, b)
		ops = append(ops, surgery{file: c, old: b, new: a.Path})
		if a == blank {
			blankImporterPos, blankImportedPos = min(blankImporterPos, pos[c]), max(blankImportedPos, bPos)
			w.features["public-relay-through-typeless-file"] = true
		} else {
			w.features["public-relay"] = true
		}
	}
	// ---- a dependency-only module whose file is reachable only through a known extension ------------
	// depx/e declares an extension of a descriptor options message (or of an extendable message of the
	// workload) and a message that needs depx/g, which nothing else uses. A target imports depx/e without
	// using it, or uses it only from one dedicated message (the "sole user", a designed exclude shape).
	nOrig := len(s.Modules)
	if !allTargeted && r.IntN(5) < 2 {
		n := next("x")
		gp, ep := "acme.depx"+n+".g.v1", "acme.depx"+n+".e.v1"
		gf := &gen.File{Path: strings.ReplaceAll(gp, ".", "/") + "/g.proto", Syntax: "proto3", Package: gp, Header: "Only depx/e needs this file.",
			Messages: []*gen.Message{{Name: "GT", Comment: "GT is needed by EY only.", Fields: []*gen.Field{{Name: "v", Number: 1, Kind: "scalar", Type: "string", Comment: "V."}}}},
			Enums:    []*gen.Enum{{Name: "GE", Comment: "GE is needed by EY only.", Values: []*gen.EnumValue{{Name: "GE_UNSPECIFIED", Number: 0, Comment: "Zero."}}}}}
		extendee := "google.protobuf." + []string{"EnumValueOptions", "OneofOptions", "ExtensionRangeOptions", "FileOptions", "MethodOptions", "MessageOptions"}[r.IntN(6)]
		ey := &gen.Message{Name: "EY", Comment: "EY needs depx/g.", Fields: []*gen.Field{
			{Name: "g", Number: 1, Label: "optional", Kind: "message", Type: gp + ".GT", Comment: "G."}}}
		switch r.IntN(3) {
		case 0:
			ey.Fields = append(ey.Fields, &gen.Field{Name: "ge", Number: 2, Label: "optional", Kind: "enum", Type: gp + ".GE", Comment: "GE."})
		case 1:
			ey.Fields = append(ey.Fields, &gen.Field{Name: "by_key", Number: 2, Kind: "map", MapKey: "string", MapVal: gp + ".GT", MapValK: "message", Comment: "Keyed."})
		}
		ef := &gen.File{Path: strings.ReplaceAll(ep, ".", "/") + "/e.proto", Syntax: "proto2", Package: ep, Header: "Reached only through its extension.",
			Messages: []*gen.Message{ey, {Name: "EOnly", Comment: "EOnly is what the sole user refers to.", Fields: []*gen.Field{{Name: "v", Number: 1, Label: "optional", Kind: "scalar", Type: "bool", Comment: "V."}}}},
			Extends:  []*gen.Extend{{Extendee: extendee, Fields: []*gen.Field{{Name: "e_tag" + n, Number: 50900 + uniq, Label: "optional", Kind: "scalar", Type: "string", Comment: "A tag from a dependency."}}}}}
		if r.IntN(3) == 0 {
			// the extension is declared inside a message
			ey.Extends, ef.Extends = ef.Extends, nil
		}
		s.Modules = append(s.Modules, &gen.Module{Dir: "depx" + n, Name: "buf.test/acme/depx" + n, Files: []*gen.File{gf, ef}})
		var hosts []*gen.File
		for _, f := range files[1:] {
			if f != blank {
				hosts = append(hosts, f)
			}
		}
		host := hosts[r.IntN(len(hosts))]
		if r.IntN(2) == 0 {
			c12AddExtraImport(host, ef.Path)
			w.features["dep-file-behind-known-extension:unused-import"] = true
		} else {
			host.Messages = append(host.Messages, &gen.Message{Name: "SoleUser" + gen.Pascal(n), Comment: "The only user of depx/e.", Fields: []*gen.Field{
				{Name: "only", Number: 1, Label: map[string]string{"proto2": "optional"}[host.Syntax], Kind: "message", Type: ep + ".EOnly", Comment: "Only."}}})
			w.features["dep-file-behind-known-extension:sole-user"] = true
		}
	}

	rd := s.Render()
	for mi, m := range s.Modules {
		w.texts = append(w.texts, map[string]string{})
		for p, t := range rd.Files[m.Dir] {
			w.texts[mi][p] = t
		}
	}
	for _, o := range ops {
		for mi := range w.texts {
			t, ok := w.texts[mi][o.file.Path]
			if !ok {
				continue
			}
			oldLine := fmt.Sprintf("import %q;\n", o.old)
			switch {
			case o.new == "":
				t = strings.Replace(t, oldLine, fmt.Sprintf("import weak %q;\n", o.old), 1)
			case strings.Contains(t, fmt.Sprintf("%q;\n", o.new)):
				t = strings.Replace(t, oldLine, "", 1)
			default:
				t = strings.Replace(t, oldLine, fmt.Sprintf("import %q;\n", o.new), 1)
			}
			w.texts[mi][o.file.Path] = t
		}
	}

	// ---- non-targeted modules -------------------------------------------------------------------
	w.notTargeted = make([]bool, len(s.Modules))
	if !allTargeted && nOrig > 1 && r.IntN(2) == 0 {
		// a module that later modules refer to becomes a pure dependency (its files are imports)
		w.notTargeted[r.IntN(nOrig-1)] = true
		w.features["non-targeted-module"] = true
	}
	for mi := nOrig; mi < len(s.Modules); mi++ {
		w.notTargeted[mi] = true
	}
	return w
}
