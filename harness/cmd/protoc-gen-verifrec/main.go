// Command protoc-gen-verifrec is the recording / scripted protoc plugin of the generate checks.
package main

import (
	"os"

	"github.com/bufbuild/verifharness/recplugin"
)

func main() { os.Exit(recplugin.Main()) }
