// Command verif is the verification harness: one sub-command per property check.
package main

import (
	"github.com/bufbuild/verifharness/core"

	_ "github.com/bufbuild/verifharness/checks"
)

func main() { core.Main() }
