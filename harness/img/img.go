// Package img decodes serialized buf images at the wire boundary and offers canonical descriptor comparison.
package img

import (
	"fmt"
	"sort"
	"strings"

	imagev1 "github.com/bufbuild/buf/private/gen/proto/go/buf/alpha/image/v1"
	"google.golang.org/protobuf/proto"
	"google.golang.org/protobuf/types/descriptorpb"
)

type File struct {
	Path              string
	IsImport          bool
	SyntaxUnspecified bool
	UnusedDeps        []int32
	ModuleName        string // remote/owner/repository or ""
	Commit            string
	FD                *descriptorpb.FileDescriptorProto // buf extension removed, custom options as unknown fields
}

type Image struct {
	Files []*File
	Raw   *imagev1.Image
}

func (im *Image) ByPath() map[string]*File {
	out := map[string]*File{}
	for _, f := range im.Files {
		out[f.Path] = f
	}
	return out
}

func (im *Image) Paths() []string {
	var out []string
	for _, f := range im.Files {
		out = append(out, f.Path)
	}
	return out
}

// Parse decodes `buf build -o -#format=binpb` output.
func Parse(data []byte) (*Image, error) {
	raw := &imagev1.Image{}
	if err := proto.Unmarshal(data, raw); err != nil {
		return nil, err
	}
	return FromProto(raw)
}

func FromProto(raw *imagev1.Image) (*Image, error) {
	im := &Image{Raw: raw}
	for _, rf := range raw.GetFile() {
		f := &File{Path: rf.GetName()}
		if ext := rf.GetBufExtension(); ext != nil {
			f.IsImport = ext.GetIsImport()
			f.SyntaxUnspecified = ext.GetIsSyntaxUnspecified()
			f.UnusedDeps = ext.GetUnusedDependency()
			if mi := ext.GetModuleInfo(); mi != nil {
				if n := mi.GetName(); n != nil {
					f.ModuleName = n.GetRemote() + "/" + n.GetOwner() + "/" + n.GetRepository()
				}
				f.Commit = mi.GetCommit()
			}
		} else {
			return nil, fmt.Errorf("image file %s has no buf extension", f.Path)
		}
		clone := proto.Clone(rf).(*imagev1.ImageFile)
		clone.ClearBufExtension()
		b, err := proto.MarshalOptions{Deterministic: true}.Marshal(clone)
		if err != nil {
			return nil, err
		}
		fd := &descriptorpb.FileDescriptorProto{}
		if err := proto.Unmarshal(b, fd); err != nil {
			return nil, err
		}
		f.FD = fd
		im.Files = append(im.Files, f)
	}
	return im, nil
}

// Canon round-trips a descriptor through the wire so that custom options are unknown fields in
// every descriptor being compared, whatever produced it.
func Canon(fd *descriptorpb.FileDescriptorProto) *descriptorpb.FileDescriptorProto {
	b, err := proto.MarshalOptions{Deterministic: true}.Marshal(fd)
	if err != nil {
		panic(err)
	}
	out := &descriptorpb.FileDescriptorProto{}
	if err := proto.Unmarshal(b, out); err != nil {
		panic(err)
	}
	return out
}

// DiffFD returns "" if the two descriptors are equal, else a short description of where they differ.
func DiffFD(a, b *descriptorpb.FileDescriptorProto) string {
	a, b = Canon(a), Canon(b)
	if proto.Equal(a, b) {
		return ""
	}
	var parts []string
	a2, b2 := proto.Clone(a).(*descriptorpb.FileDescriptorProto), proto.Clone(b).(*descriptorpb.FileDescriptorProto)
	a2.SourceCodeInfo, b2.SourceCodeInfo = nil, nil
	if proto.Equal(a2, b2) {
		parts = append(parts, "only source_code_info differs")
		la, lb := len(a.GetSourceCodeInfo().GetLocation()), len(b.GetSourceCodeInfo().GetLocation())
		parts = append(parts, fmt.Sprintf("locations %d vs %d", la, lb))
		for i := 0; i < la && i < lb; i++ {
			if !proto.Equal(a.SourceCodeInfo.Location[i], b.SourceCodeInfo.Location[i]) {
				parts = append(parts, fmt.Sprintf("first differing location #%d: %v vs %v", i, a.SourceCodeInfo.Location[i], b.SourceCodeInfo.Location[i]))
				break
			}
		}
	} else {
		if strings.Join(a.Dependency, ",") != strings.Join(b.Dependency, ",") {
			parts = append(parts, fmt.Sprintf("dependency %v vs %v", a.Dependency, b.Dependency))
		}
		if len(a.MessageType) != len(b.MessageType) {
			parts = append(parts, fmt.Sprintf("message count %d vs %d", len(a.MessageType), len(b.MessageType)))
		}
		for i := 0; i < len(a.MessageType) && i < len(b.MessageType); i++ {
			if !proto.Equal(a.MessageType[i], b.MessageType[i]) {
				parts = append(parts, "message "+a.MessageType[i].GetName()+" differs")
				break
			}
		}
		if !proto.Equal(a.Options, b.Options) {
			parts = append(parts, "file options differ")
		}
		if len(parts) == 0 {
			parts = append(parts, "descriptors differ")
		}
	}
	sort.Strings(parts)
	return strings.Join(parts, "; ")
}
