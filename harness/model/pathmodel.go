// Package model holds the small reference models the oracles are computed from.
// Nothing here imports buf code.
package model

import "strings"

// PathInfo is the lexical meaning of a slash-separated path string.
type PathInfo struct {
	Absolute bool
	// Escapes: the path is absolute, or at some point climbs above its starting directory.
	Escapes bool
	// Clean is the canonical relative form ("." for the root) when !Escapes.
	Clean string
	// Up is the number of levels above the start the cleaned path begins at (when relative and escaping).
	Up int
	// Rest are the components after the leading ".." of an escaping relative path, or all components.
	Rest []string
}

// AnalyzePath interprets p as a sequence of components: "" and "." are no-ops, ".." pops a
// component or, on an empty stack, climbs one level above the start (which can never be undone
// lexically).
func AnalyzePath(p string) PathInfo {
	info := PathInfo{}
	if strings.HasPrefix(p, "/") {
		info.Absolute = true
		info.Escapes = true
	}
	var stack []string
	up := 0
	for _, comp := range strings.Split(p, "/") {
		switch comp {
		case "", ".":
		case "..":
			if len(stack) > 0 {
				stack = stack[:len(stack)-1]
			} else {
				up++
			}
		default:
			stack = append(stack, comp)
		}
	}
	info.Up = up
	info.Rest = stack
	if up > 0 && !info.Absolute {
		info.Escapes = true
	}
	if !info.Escapes {
		if len(stack) == 0 {
			info.Clean = "."
		} else {
			info.Clean = strings.Join(stack, "/")
		}
	}
	return info
}

// ContainsPath reports whether path is dir itself or lies beneath it, component-wise.
// Both are clean relative paths; "." contains everything.
func ContainsPath(dir, path string) bool {
	if dir == "." || dir == "" {
		return true
	}
	return path == dir || strings.HasPrefix(path, dir+"/")
}
