package model

import (
	"encoding/hex"
	"path"
	"sort"
	"strings"

	"golang.org/x/crypto/sha3"
)

// Independent construction of the published b5 module digest. Uses only x/crypto/sha3.

func shake256Hex(data []byte) string {
	h := sha3.NewShake256()
	h.Write(data)
	out := make([]byte, 64)
	h.Read(out)
	return hex.EncodeToString(out)
}

// DocFileOrder is the documented precedence of the module documentation file (root only).
var DocFileOrder = []string{"buf.md", "README.md", "README.markdown"}

// IsModuleFile reports whether p is a module file of the file set: *.proto anywhere, LICENSE at
// the root, and the first existing documentation file at the root.
func IsModuleFile(files map[string][]byte, p string) bool {
	if path.Ext(p) == ".proto" {
		return true
	}
	if p == "LICENSE" {
		return true
	}
	for _, d := range DocFileOrder {
		if _, ok := files[d]; ok {
			return p == d
		}
	}
	return false
}

// ModuleFiles projects a file set onto its module files.
func ModuleFiles(files map[string][]byte) map[string][]byte {
	out := map[string][]byte{}
	for p, d := range files {
		if IsModuleFile(files, p) {
			out[p] = d
		}
	}
	return out
}

// ManifestText is the canonical manifest of a file set: "shake256:<hex>  <path>\n" sorted by path.
func ManifestText(files map[string][]byte) string {
	var paths []string
	for p := range files {
		paths = append(paths, p)
	}
	sort.Strings(paths)
	var sb strings.Builder
	for _, p := range paths {
		sb.WriteString("shake256:" + shake256Hex(files[p]) + "  " + p + "\n")
	}
	return sb.String()
}

// FilesDigest is "shake256:<hex>" over the manifest of the module files.
func FilesDigest(files map[string][]byte) string {
	return "shake256:" + shake256Hex([]byte(ManifestText(ModuleFiles(files))))
}

// B5 is the b5 digest string of a module with the given files and dependency b5 digest strings.
func B5(files map[string][]byte, depB5 []string) string {
	deps := append([]string{}, depB5...)
	sort.Strings(deps)
	all := append([]string{FilesDigest(files)}, deps...)
	return "b5:" + shake256Hex([]byte(strings.Join(all, "\n")))
}

// B4 is the legacy ("shake256:<hex>") module digest: SHAKE256 over the manifest of the module files together with
// the v1 buf.yaml and buf.lock object data (when present) under those two names.
func B4(files map[string][]byte, bufYAML, bufLock []byte) string {
	return B4Named(files, "buf.yaml", bufYAML, bufLock)
}

// B4Named is B4 for a module whose v1 configuration file carries the given name (buf.yaml, or the legacy buf.mod):
// the name is part of the manifest.
func B4Named(files map[string][]byte, yamlName string, bufYAML, bufLock []byte) string {
	all := map[string][]byte{}
	for p, d := range ModuleFiles(files) {
		all[p] = d
	}
	if bufYAML != nil {
		all[yamlName] = bufYAML
	}
	if bufLock != nil {
		all["buf.lock"] = bufLock
	}
	return "shake256:" + shake256Hex([]byte(ManifestText(all)))
}
