package model

// Shake256 is the "shake256:<hex>" content digest string of data (64-byte SHAKE256 output).
func Shake256(data []byte) string { return "shake256:" + shake256Hex(data) }
