package model

// Token-string model for C19, written from the property statement and the documented format
// ("token1@remote1,token2@remote2", or one host-less token). It is a character scanner and shares
// no code with buf's parser.
//
//   - ""                                   → no token configured
//   - one entry, no '@'                    → a single host-less token: applies to every host
//   - every entry is exactly token@host    → host-keyed map with exact-match lookup
//   - anything else                        → malformed (must be rejected, never partially applied)
//
// Three shapes are left open by the statement and are classified as corner cases, for which the
// oracle only demands the non-leak invariant: ':' inside a host-less token, ':' inside the token
// part of a keyed entry, and the same host keyed twice.

type TokenKind int

const (
	TokEmpty TokenKind = iota
	TokSingle
	TokMap
	TokMalformed
	TokCorner
)

func (k TokenKind) String() string {
	return [...]string{"empty", "single", "map", "malformed", "corner"}[k]
}

// TokenEntry is one ','-separated part of the string.
type TokenEntry struct {
	Raw   string
	Ats   int    // number of '@' in Raw
	Token string // text before the first '@' (Raw when Ats == 0)
	Host  string // text after the first '@'
}

// TokenConfig is the meaning of one BUF_TOKEN string.
type TokenConfig struct {
	Kind    TokenKind
	Reason  string // sub-kind of malformed / corner strings (stable text)
	Single  string
	Entries []TokenEntry
}

// WellFormed: the statement fixes the behaviour completely.
func (tc *TokenConfig) WellFormed() bool {
	return tc.Kind == TokEmpty || tc.Kind == TokSingle || tc.Kind == TokMap
}

// Expect returns the token the environment source alone attaches to a request for host
// ("" = none). Only meaningful for well-formed configurations.
func (tc *TokenConfig) Expect(host string) string {
	switch tc.Kind {
	case TokSingle:
		return tc.Single
	case TokMap:
		for i := range tc.Entries {
			if tc.Entries[i].Host == host {
				return tc.Entries[i].Token
			}
		}
	}
	return ""
}

// TokenParser parses token strings, reusing its entry buffer between calls: the returned
// configuration is only valid until the next Parse.
type TokenParser struct {
	cfg TokenConfig
}

func (p *TokenParser) Parse(s string) *TokenConfig {
	cfg := &p.cfg
	cfg.Kind, cfg.Reason, cfg.Single = TokEmpty, "", ""
	cfg.Entries = cfg.Entries[:0]
	if len(s) == 0 {
		return cfg
	}
	// scan entries
	start := 0
	for i := 0; i <= len(s); i++ {
		if i < len(s) && s[i] != ',' {
			continue
		}
		raw := s[start:i]
		e := TokenEntry{Raw: raw, Token: raw}
		first := -1
		for j := 0; j < len(raw); j++ {
			if raw[j] == '@' {
				e.Ats++
				if first < 0 {
					first = j
				}
			}
		}
		if first >= 0 {
			e.Token, e.Host = raw[:first], raw[first+1:]
		}
		cfg.Entries = append(cfg.Entries, e)
		start = i + 1
	}
	hostless, keyed := 0, 0
	malformed, corner := "", ""
	setMal := func(r string) {
		if malformed == "" {
			malformed = r
		}
	}
	setCorner := func(r string) {
		if corner == "" {
			corner = r
		}
	}
	for i := range cfg.Entries {
		e := &cfg.Entries[i]
		switch {
		case e.Raw == "":
			setMal("empty-entry")
		case e.Ats == 0:
			hostless++
			if hasByte(e.Raw, ':') {
				setCorner("colon-in-hostless-token")
			}
		case e.Ats > 1:
			keyed++
			setMal("several-at-signs")
		case e.Token == "":
			keyed++
			setMal("empty-token")
		case e.Host == "":
			keyed++
			setMal("empty-host")
		default:
			keyed++
			if hasByte(e.Token, ':') {
				setCorner("colon-in-keyed-token")
			}
			for j := 0; j < i; j++ {
				if cfg.Entries[j].Ats == 1 && cfg.Entries[j].Host == e.Host {
					setCorner("host-keyed-twice")
				}
			}
		}
	}
	if malformed == "" {
		switch {
		case hostless > 0 && keyed > 0:
			malformed = "hostless-mixed-with-keyed"
		case hostless > 1:
			malformed = "several-hostless-tokens"
		}
	}
	switch {
	case malformed != "":
		cfg.Kind, cfg.Reason = TokMalformed, malformed
	case corner != "":
		cfg.Kind, cfg.Reason = TokCorner, corner
	case hostless == 1:
		cfg.Kind, cfg.Single = TokSingle, cfg.Entries[0].Raw
	default:
		cfg.Kind = TokMap
	}
	return cfg
}

func hasByte(s string, b byte) bool {
	for i := 0; i < len(s); i++ {
		if s[i] == b {
			return true
		}
	}
	return false
}

// Association says how the raw string s relates token to host, without deciding whether s is
// well-formed: "hostless" (token is a whole entry), "host" (an entry token@host), "other:<h>" (only
// entries token@h with h != host), "unconfigured" (no entry is, or begins with, token + '@').
// It decides the non-leak invariant for every string, malformed ones included.
func Association(s, token, host string) string {
	other := ""
	start := 0
	for i := 0; i <= len(s); i++ {
		if i < len(s) && s[i] != ',' {
			continue
		}
		e := s[start:i]
		start = i + 1
		if e == token {
			return "hostless"
		}
		if len(e) > len(token) && e[:len(token)] == token && e[len(token)] == '@' {
			rest := e[len(token)+1:]
			if rest == host {
				return "host"
			}
			if other == "" {
				other = "other:" + rest
			}
		}
	}
	if other != "" {
		return other
	}
	return "unconfigured"
}
