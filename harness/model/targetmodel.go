package model

import (
	"sort"
	"strings"
)

// WSFile is a source file of a workspace: module directory + module-relative (import) path.
type WSFile struct {
	ModuleDir string
	Path      string
	Imports   []string
}

func (f WSFile) WSPath() string {
	if f.ModuleDir == "" || f.ModuleDir == "." {
		return f.Path
	}
	return f.ModuleDir + "/" + f.Path
}

// Targets computes the set of targeted import paths for an input (workspace root "." or a module
// directory) and workspace-relative --path / --exclude-path values.
func Targets(files []WSFile, input string, paths, excludes []string) map[string]bool {
	out := map[string]bool{}
	for _, f := range files {
		if input != "." && input != "" && f.ModuleDir != input {
			continue
		}
		ws := f.WSPath()
		ok := len(paths) == 0
		for _, p := range paths {
			if ContainsPath(p, ws) {
				ok = true
			}
		}
		for _, e := range excludes {
			if ContainsPath(e, ws) {
				ok = false
			}
		}
		if ok {
			out[f.Path] = true
		}
	}
	return out
}

// Closure returns targets plus everything transitively imported (imports maps import path -> imports;
// paths absent from the map, e.g. well-known types, have no further imports unless listed).
func Closure(targets map[string]bool, imports map[string][]string) map[string]bool {
	out := map[string]bool{}
	var visit func(p string)
	visit = func(p string) {
		if out[p] {
			return
		}
		out[p] = true
		for _, d := range imports[p] {
			visit(d)
		}
	}
	for t := range targets {
		visit(t)
	}
	return out
}

func SortedKeys(m map[string]bool) []string {
	var out []string
	for k := range m {
		out = append(out, k)
	}
	sort.Strings(out)
	return out
}

func JoinSorted(m map[string]bool) string { return strings.Join(SortedKeys(m), ",") }
