// Package ref compiles generated sources directly with protocompile (the "Protobuf compiler" the
// properties refer to), independently of buf's image builder.
package ref

import (
	"context"
	"errors"
	"io"
	"io/fs"
	gopath "path"
	"strings"

	"github.com/bufbuild/buf/private/gen/data/datawkt"
	"github.com/bufbuild/protocompile"
	"github.com/bufbuild/protocompile/linker"
	"github.com/bufbuild/protocompile/reporter"
	"google.golang.org/protobuf/reflect/protodesc"
	"google.golang.org/protobuf/types/descriptorpb"
)

type Diag struct {
	File    string
	Line    int
	Col     int
	Message string
}

type Result struct {
	// Files: path -> descriptor proto (with source info), for every file reachable from the roots.
	Files    map[string]*descriptorpb.FileDescriptorProto
	Linked   linker.Files
	Errors   []Diag
	Warnings []Diag
	// UnusedImports: file -> unused import paths; SyntaxUnspecified: files without syntax.
	UnusedImports     map[string]map[string]bool
	SyntaxUnspecified map[string]bool
}

// Compile compiles roots (import paths) from sources (import path -> text); WKTs not present in
// sources resolve to the copies embedded in buf (datawkt).
func Compile(sources map[string]string, roots []string, sourceInfo bool) *Result {
	ctx := context.Background()
	res := &Result{Files: map[string]*descriptorpb.FileDescriptorProto{}, UnusedImports: map[string]map[string]bool{}, SyntaxUnspecified: map[string]bool{}}
	mode := protocompile.SourceInfoExtraOptionLocations
	if !sourceInfo {
		mode = protocompile.SourceInfoNone
	}
	toDiag := func(e reporter.ErrorWithPos) Diag {
		p := e.GetPosition()
		return Diag{File: p.Filename, Line: p.Line, Col: p.Col, Message: e.Unwrap().Error()}
	}
	compiler := protocompile.Compiler{
		MaxParallelism: 1,
		SourceInfoMode: mode,
		Resolver: &protocompile.SourceResolver{Accessor: func(path string) (io.ReadCloser, error) {
			if text, ok := sources[path]; ok {
				return io.NopCloser(strings.NewReader(text)), nil
			}
			// an import names a file by its canonical path only (protoc: no ".", "..", empty or absolute
			// components); the bucket of built-in files would normalise the spelling and find the file
			if path != gopath.Clean(path) || strings.HasPrefix(path, "/") {
				return nil, fs.ErrNotExist
			}
			obj, err := datawkt.ReadBucket.Get(ctx, path)
			if err != nil {
				return nil, err
			}
			return obj, nil
		}},
		Reporter: reporter.NewReporter(
			func(e reporter.ErrorWithPos) error {
				res.Errors = append(res.Errors, toDiag(e))
				return nil
			},
			func(e reporter.ErrorWithPos) {
				d := toDiag(e)
				res.Warnings = append(res.Warnings, d)
				var unused linker.ErrorUnusedImport
				if errors.As(e, &unused) {
					if res.UnusedImports[d.File] == nil {
						res.UnusedImports[d.File] = map[string]bool{}
					}
					res.UnusedImports[d.File][unused.UnusedImport()] = true
				}
				if errors.Is(e.Unwrap(), parserErrNoSyntax) || strings.Contains(d.Message, "no syntax specified") {
					res.SyntaxUnspecified[d.File] = true
				}
			},
		),
	}
	files, err := compiler.Compile(ctx, roots...)
	if err != nil {
		if len(res.Errors) == 0 {
			var ewp reporter.ErrorWithPos
			if errors.As(err, &ewp) {
				res.Errors = append(res.Errors, toDiag(ewp))
			} else {
				res.Errors = append(res.Errors, Diag{Message: err.Error()})
			}
		}
		return res
	}
	res.Linked = files
	var add func(f linker.File)
	add = func(f linker.File) {
		if _, ok := res.Files[f.Path()]; ok {
			return
		}
		res.Files[f.Path()] = protodesc.ToFileDescriptorProto(f)
		imps := f.Imports()
		for i := 0; i < imps.Len(); i++ {
			if dep := f.FindImportByPath(imps.Get(i).Path()); dep != nil {
				add(dep)
			}
		}
	}
	for _, f := range files {
		add(f)
	}
	return res
}

var parserErrNoSyntax = errors.New("unused sentinel")
