package gen

import (
	"fmt"
	"sort"
	"strings"
)

// Span is where an element was written (1-based lines/columns, like buf's annotations).
type Span struct {
	File      string // module-relative path
	StartLine int    // first line of the declaration (after its leading comment)
	StartCol  int
	EndLine   int // last line of the declaration
	NameLine  int
	NameCol   int
	Kind      string // message, enum, enumvalue, field, oneof, service, rpc, extension, package, syntax, import, option, file
	Name      string // full name
	// CommentLine is the first line of the leading comment (0 if none).
	CommentLine int
}

type Rendered struct {
	// Files: module dir -> module-relative path -> text
	Files map[string]map[string]string
	// Spans by key "<kind>:<full name>"; file-level statements use "<kind>:<path>[:<detail>]".
	Spans map[string]*Span
}

func (r *Rendered) Span(kind, name string) *Span { return r.Spans[kind+":"+name] }

// Innermost returns the innermost recorded declaration of file whose line range contains line.
func (r *Rendered) Innermost(file string, line int) *Span {
	var best *Span
	for _, sp := range r.Spans {
		if sp.File != file || sp.Kind == "file" {
			continue
		}
		if line >= sp.StartLine && line <= sp.EndLine {
			if best == nil || (sp.EndLine-sp.StartLine) < (best.EndLine-best.StartLine) ||
				((sp.EndLine-sp.StartLine) == (best.EndLine-best.StartLine) && sp.StartLine >= best.StartLine && sp.Kind != "oneof" && best.Kind == "oneof") {
				best = sp
			}
		}
	}
	return best
}

type writer struct {
	sb    strings.Builder
	line  int
	col   int
	file  string
	spans map[string]*Span
}

func (w *writer) write(s string) {
	for _, ch := range s {
		if ch == '\n' {
			w.line++
			w.col = 1
		} else {
			w.col++
		}
	}
	w.sb.WriteString(s)
}

func (w *writer) comment(indent, c string) int {
	if c == "" {
		return 0
	}
	first := w.line
	for _, l := range strings.Split(c, "\n") {
		if strings.HasPrefix(l, "/*") || strings.HasPrefix(l, " *") {
			w.write(indent + l + "\n")
		} else if l == "" {
			w.write(indent + "//\n")
		} else {
			w.write(indent + "// " + l + "\n")
		}
	}
	return first
}

func (w *writer) begin(kind, name, indent, comment string) *Span {
	cl := w.comment(indent, comment)
	w.write(indent)
	sp := &Span{File: w.file, StartLine: w.line, StartCol: w.col, Kind: kind, Name: name, CommentLine: cl}
	w.spans[kind+":"+name] = sp
	return sp
}

func (w *writer) markName(sp *Span) { sp.NameLine, sp.NameCol = w.line, w.col }
func (w *writer) end(sp *Span)      { sp.EndLine = w.line }

func optsInline(opts []Opt, jsonName, def string) string {
	var parts []string
	if jsonName != "" {
		parts = append(parts, fmt.Sprintf("json_name = %q", jsonName))
	}
	if def != "" {
		parts = append(parts, "default = "+def)
	}
	for _, o := range opts {
		parts = append(parts, o.Name+" = "+o.Value)
	}
	if len(parts) == 0 {
		return ""
	}
	return " [" + strings.Join(parts, ", ") + "]"
}

func typeRef(scope string, t string) string {
	// always fully qualified with a leading dot: unambiguous regardless of scope
	if t == "" {
		return t
	}
	if scalarSet[t] {
		return t
	}
	return "." + t
}

var scalarSet = map[string]bool{"double": true, "float": true, "int32": true, "int64": true, "uint32": true, "uint64": true, "sint32": true, "sint64": true,
	"fixed32": true, "fixed64": true, "sfixed32": true, "sfixed64": true, "bool": true, "string": true, "bytes": true}

func (w *writer) field(scope, indent string, fl *Field, kind string) {
	sp := w.begin(kind, scope+"."+fl.Name, indent, fl.Comment)
	label := ""
	if fl.Label != "" {
		label = fl.Label + " "
	}
	switch fl.Kind {
	case "map":
		w.write(fmt.Sprintf("%smap<%s, %s> ", label, fl.MapKey, typeRef(scope, fl.MapVal)))
	case "group":
		w.write(label + "group ")
		w.markName(sp)
		w.write(fmt.Sprintf("%s = %d%s {\n", fl.Group.Name, fl.Number, optsInline(fl.Options, fl.JSONName, "")))
		w.messageBody(scope+"."+fl.Group.Name, indent+"  ", fl.Group)
		w.write(indent + "}")
		w.end(sp)
		w.write("\n")
		return
	default:
		w.write(label + typeRef(scope, fl.Type) + " ")
	}
	w.markName(sp)
	w.write(fmt.Sprintf("%s = %d%s;", fl.Name, fl.Number, optsInline(fl.Options, fl.JSONName, fl.Default)))
	if fl.Trailing != "" {
		w.write(" // " + fl.Trailing)
	}
	w.end(sp)
	w.write("\n")
}

func (w *writer) options(indent string, opts []Opt, owner string) {
	for _, o := range opts {
		sp := w.begin("option", owner+":"+o.Name, indent, "")
		w.write("option " + o.Name + " = " + o.Value + ";")
		w.end(sp)
		w.write("\n")
	}
}

func (w *writer) optionsWithComments(indent string, opts []Opt, owner string, comments map[string]string) {
	for _, o := range opts {
		sp := w.begin("option", owner+":"+o.Name, indent, comments[o.Name])
		w.write("option " + o.Name + " = " + o.Value + ";")
		w.end(sp)
		w.write("\n")
	}
}

func (w *writer) reserved(indent string, ranges []Range, names []string, owner string, edition bool) {
	if len(ranges) > 0 {
		var parts []string
		for _, r := range ranges {
			parts = append(parts, r.String())
		}
		sp := w.begin("reserved", owner+":ranges", indent, "")
		w.write("reserved " + strings.Join(parts, ", ") + ";")
		w.end(sp)
		w.write("\n")
	}
	if len(names) > 0 {
		var parts []string
		for _, n := range names {
			if edition {
				parts = append(parts, n)
			} else {
				parts = append(parts, fmt.Sprintf("%q", n))
			}
		}
		sp := w.begin("reserved", owner+":names", indent, "")
		w.write("reserved " + strings.Join(parts, ", ") + ";")
		w.end(sp)
		w.write("\n")
	}
}

var curEdition bool

func (w *writer) messageBody(full, indent string, m *Message) {
	w.options(indent, m.Options, full)
	for _, e := range m.Enums {
		w.enum(full, indent, e)
	}
	for _, n := range m.Nested {
		w.message(full, indent, n)
	}
	done := map[string]bool{}
	for _, fl := range m.Fields {
		if fl.Oneof == "" {
			w.field(full, indent, fl, "field")
			continue
		}
		if done[fl.Oneof] {
			continue
		}
		done[fl.Oneof] = true
		sp := w.begin("oneof", full+"."+fl.Oneof, indent, m.OneofComments[fl.Oneof])
		w.write("oneof ")
		w.markName(sp)
		w.write(fl.Oneof + " {\n")
		for _, g := range m.Fields {
			if g.Oneof == fl.Oneof {
				w.field(full, indent+"  ", g, "field")
			}
		}
		w.write(indent + "}")
		w.end(sp)
		w.write("\n")
	}
	for _, r := range m.ExtRanges {
		sp := w.begin("extrange", fmt.Sprintf("%s:%d", full, r.Lo), indent, "")
		w.write("extensions " + r.String())
		if len(r.Options) > 0 {
			var os []string
			for _, o := range r.Options {
				os = append(os, o.Name+" = "+o.Value)
			}
			w.write(" [" + strings.Join(os, ", ") + "]")
		}
		w.write(";")
		w.end(sp)
		w.write("\n")
	}
	w.reserved(indent, m.ReservedRanges, m.ReservedNames, full, curEdition)
	for _, x := range m.Extends {
		w.extend(full, indent, x)
	}
}

func (w *writer) message(scope, indent string, m *Message) {
	full := m.Name
	if scope != "" {
		full = scope + "." + m.Name
	}
	sp := w.begin("message", full, indent, m.Comment)
	w.write("message ")
	w.markName(sp)
	w.write(m.Name + " {\n")
	w.messageBody(full, indent+"  ", m)
	w.write(indent + "}")
	w.end(sp)
	w.write("\n")
}

func (w *writer) enum(scope, indent string, e *Enum) {
	full := e.Name
	if scope != "" {
		full = scope + "." + e.Name
	}
	sp := w.begin("enum", full, indent, e.Comment)
	w.write("enum ")
	w.markName(sp)
	w.write(e.Name + " {\n")
	if e.AllowAlias {
		w.write(indent + "  option allow_alias = true;\n")
	}
	w.options(indent+"  ", e.Options, full)
	for _, v := range e.Values {
		vs := w.begin("enumvalue", full+"."+v.Name, indent+"  ", v.Comment)
		w.markName(vs)
		w.write(fmt.Sprintf("%s = %d%s;", v.Name, v.Number, optsInline(v.Options, "", "")))
		w.end(vs)
		w.write("\n")
	}
	w.reserved(indent+"  ", e.ReservedRanges, e.ReservedNames, full, curEdition)
	w.write(indent + "}")
	w.end(sp)
	w.write("\n")
}

func (w *writer) extend(scope, indent string, x *Extend) {
	w.write(indent + "extend " + typeRef(scope, x.Extendee) + " {\n")
	for _, fl := range x.Fields {
		w.field(scope, indent+"  ", fl, "extension")
	}
	w.write(indent + "}\n")
}

func (w *writer) service(scope string, sv *Service) {
	full := sv.Name
	if scope != "" {
		full = scope + "." + sv.Name
	}
	sp := w.begin("service", full, "", sv.Comment)
	w.write("service ")
	w.markName(sp)
	w.write(sv.Name + " {\n")
	w.options("  ", sv.Options, full)
	for _, m := range sv.Methods {
		ms := w.begin("rpc", full+"."+m.Name, "  ", m.Comment)
		w.write("rpc ")
		w.markName(ms)
		in, out := typeRef(scope, m.In), typeRef(scope, m.Out)
		if m.ClientStream {
			in = "stream " + in
		}
		if m.ServerStream {
			out = "stream " + out
		}
		w.write(fmt.Sprintf("%s(%s) returns (%s)", m.Name, in, out))
		if len(m.Options) > 0 {
			w.write(" {\n")
			w.options("    ", m.Options, full+"."+m.Name)
			w.write("  }")
		} else {
			w.write(";")
		}
		w.end(ms)
		w.write("\n")
	}
	w.write("}")
	w.end(sp)
	w.write("\n")
}

// RenderFile renders one file canonically.
func (s *Schema) RenderFile(f *File, spans map[string]*Span) string {
	w := &writer{line: 1, col: 1, file: f.Path, spans: spans}
	curEdition = f.Syntax == "editions"
	if f.Header != "" {
		w.comment("", f.Header)
		w.write("\n")
	}
	switch f.Syntax {
	case "proto2", "proto3":
		sp := w.begin("syntax", f.Path, "", "")
		w.write(fmt.Sprintf("syntax = %q;", f.Syntax))
		w.end(sp)
		w.write("\n\n")
	case "editions":
		sp := w.begin("syntax", f.Path, "", "")
		w.write(`edition = "2023";`)
		w.end(sp)
		w.write("\n\n")
	}
	if f.Package != "" {
		sp := w.begin("package", f.Path, "", f.PackageComment)
		w.write("package ")
		w.markName(sp)
		w.write(f.Package + ";")
		w.end(sp)
		w.write("\n\n")
	}
	imports := s.ImportsOf(f)
	for _, im := range imports {
		sp := w.begin("import", f.Path+":"+im.Path, "", f.ImportComments[im.Path])
		mod := ""
		if im.Public {
			mod = "public "
		} else if im.Weak {
			mod = "weak "
		}
		w.write(fmt.Sprintf("import %s%q;", mod, im.Path))
		w.end(sp)
		w.write("\n")
	}
	if len(imports) > 0 {
		w.write("\n")
	}
	if len(f.Options) > 0 {
		opts := append([]Opt{}, f.Options...)
		sort.SliceStable(opts, func(i, j int) bool { return opts[i].Name < opts[j].Name })
		w.optionsWithComments("", opts, f.Path, f.OptionComments)
		w.write("\n")
	}
	scope := f.Package
	for _, e := range f.Enums {
		w.enum(scope, "", e)
		w.write("\n")
	}
	for _, m := range f.Messages {
		w.message(scope, "", m)
		w.write("\n")
	}
	for _, x := range f.Extends {
		w.extend(scope, "", x)
		w.write("\n")
	}
	for _, sv := range f.Services {
		w.service(scope, sv)
		w.write("\n")
	}
	out := strings.TrimRight(w.sb.String(), "\n") + "\n"
	spans["file:"+f.Path] = &Span{File: f.Path, StartLine: 1, StartCol: 1, EndLine: strings.Count(out, "\n"), Kind: "file", Name: f.Path}
	return out
}

// Render renders the whole schema.
func (s *Schema) Render() *Rendered {
	r := &Rendered{Files: map[string]map[string]string{}, Spans: map[string]*Span{}}
	for _, m := range s.Modules {
		r.Files[m.Dir] = map[string]string{}
		for _, f := range m.Files {
			r.Files[m.Dir][f.Path] = s.RenderFile(f, r.Spans)
		}
	}
	return r
}

// Flat returns workspace-relative path -> text.
func (r *Rendered) Flat() map[string]string {
	out := map[string]string{}
	for dir, files := range r.Files {
		for p, t := range files {
			if dir == "." || dir == "" {
				out[p] = t
			} else {
				out[dir+"/"+p] = t
			}
		}
	}
	return out
}
