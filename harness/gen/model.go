// Package gen is the schema/workspace workload generator: a typed model of Protobuf sources,
// a canonical renderer that records where every element was written, and a random generator
// producing lint-clean-by-construction, compilable workspaces.
package gen

import (
	"encoding/json"
	"fmt"
	"sort"
	"strings"
)

type Opt struct {
	Name  string `json:"n"` // e.g. "deprecated", "(acme.opts.v1.tag)", "features.field_presence"
	Value string `json:"v"` // literal as written
}

type Field struct {
	Name     string   `json:"name"`
	Number   int      `json:"num"`
	Label    string   `json:"label,omitempty"` // "", optional, repeated, required
	Kind     string   `json:"kind"`            // scalar, message, enum, map, group
	Type     string   `json:"type"`            // scalar name or full type name (no leading dot)
	MapKey   string   `json:"mk,omitempty"`
	MapVal   string   `json:"mv,omitempty"`  // scalar name or full type name
	MapValK  string   `json:"mvk,omitempty"` // scalar, message, enum
	JSONName string   `json:"json,omitempty"`
	Default  string   `json:"def,omitempty"`
	Options  []Opt    `json:"opts,omitempty"`
	Oneof    string   `json:"oneof,omitempty"`
	Comment  string   `json:"c,omitempty"`
	Trailing string   `json:"tc,omitempty"`
	Group    *Message `json:"group,omitempty"`
}

type Range struct {
	Lo, Hi int // inclusive
	// Options of an extension range declaration (`extensions 1 to 9 [(x) = 1];`); unused for reserved ranges.
	Options []Opt `json:"opts,omitempty"`
}

type Message struct {
	Name           string            `json:"name"`
	Fields         []*Field          `json:"fields,omitempty"`
	Nested         []*Message        `json:"nested,omitempty"`
	Enums          []*Enum           `json:"enums,omitempty"`
	Extends        []*Extend         `json:"extends,omitempty"`
	ReservedRanges []Range           `json:"rr,omitempty"`
	ReservedNames  []string          `json:"rn,omitempty"`
	ExtRanges      []Range           `json:"er,omitempty"`
	Options        []Opt             `json:"opts,omitempty"`
	Comment        string            `json:"c,omitempty"`
	OneofComments  map[string]string `json:"oc,omitempty"`
}

type EnumValue struct {
	Name    string `json:"name"`
	Number  int    `json:"num"`
	Options []Opt  `json:"opts,omitempty"`
	Comment string `json:"c,omitempty"`
}

type Enum struct {
	Name           string       `json:"name"`
	Values         []*EnumValue `json:"values"`
	AllowAlias     bool         `json:"alias,omitempty"`
	ReservedRanges []Range      `json:"rr,omitempty"`
	ReservedNames  []string     `json:"rn,omitempty"`
	Options        []Opt        `json:"opts,omitempty"`
	Comment        string       `json:"c,omitempty"`
}

type Method struct {
	Name         string `json:"name"`
	In, Out      string
	ClientStream bool   `json:"cs,omitempty"`
	ServerStream bool   `json:"ss,omitempty"`
	Options      []Opt  `json:"opts,omitempty"`
	Comment      string `json:"c,omitempty"`
}

type Service struct {
	Name    string    `json:"name"`
	Methods []*Method `json:"methods"`
	Options []Opt     `json:"opts,omitempty"`
	Comment string    `json:"c,omitempty"`
}

type Extend struct {
	Extendee string   `json:"extendee"`
	Fields   []*Field `json:"fields"`
}

type Import struct {
	Path   string `json:"path"`
	Public bool   `json:"public,omitempty"`
	Weak   bool   `json:"weak,omitempty"`
}

type File struct {
	Path     string     `json:"path"`   // module-relative
	Syntax   string     `json:"syntax"` // proto2, proto3, editions, "" (none)
	Package  string     `json:"package"`
	Options  []Opt      `json:"opts,omitempty"`
	Messages []*Message `json:"messages,omitempty"`
	Enums    []*Enum    `json:"enums,omitempty"`
	Services []*Service `json:"services,omitempty"`
	Extends  []*Extend  `json:"extends,omitempty"`
	// ExtraImports are written in addition to the imports induced by type references.
	ExtraImports []Import `json:"extra_imports,omitempty"`
	// PublicOf: imports induced by references that should be written `import public`.
	PublicImports []string `json:"public_imports,omitempty"`
	Header        string   `json:"header,omitempty"` // leading file comment
	// WeakImports: imports induced by references that should be written `import weak`.
	WeakImports []string `json:"weak_imports,omitempty"`
	// PackageComment is the leading comment of the package statement ("" for none).
	PackageComment string `json:"package_comment,omitempty"`
	// ImportComments: import path -> leading comment of that import statement.
	ImportComments map[string]string `json:"import_comments,omitempty"`
	// OptionComments: file option name -> leading comment of that option statement.
	OptionComments map[string]string `json:"option_comments,omitempty"`
}

type Module struct {
	Dir   string  `json:"dir"`  // workspace-relative directory
	Name  string  `json:"name"` // optional full name
	Files []*File `json:"files"`
}

type Schema struct {
	Modules []*Module `json:"modules"`
}

// Clone deep-copies a schema (the model is plain data).
func (s *Schema) Clone() *Schema {
	data, err := json.Marshal(s)
	if err != nil {
		panic(err)
	}
	out := &Schema{}
	if err := json.Unmarshal(data, out); err != nil {
		panic(err)
	}
	return out
}

func (s *Schema) AllFiles() []*File {
	var out []*File
	for _, m := range s.Modules {
		out = append(out, m.Files...)
	}
	return out
}

func (s *Schema) FileByPath(p string) *File {
	for _, f := range s.AllFiles() {
		if f.Path == p {
			return f
		}
	}
	return nil
}

func (s *Schema) ModuleOf(f *File) *Module {
	for _, m := range s.Modules {
		for _, g := range m.Files {
			if g == f {
				return m
			}
		}
	}
	return nil
}

// TypeIndex maps every message/enum full name to the file that declares it.
type TypeInfo struct {
	File   *File
	IsEnum bool
	Msg    *Message
	Enum   *Enum
	Parent *Message
}

func (s *Schema) TypeIndex() map[string]*TypeInfo {
	idx := map[string]*TypeInfo{}
	for _, f := range s.AllFiles() {
		var walk func(prefix string, parent *Message, msgs []*Message, enums []*Enum)
		walk = func(prefix string, parent *Message, msgs []*Message, enums []*Enum) {
			for _, e := range enums {
				idx[prefix+e.Name] = &TypeInfo{File: f, IsEnum: true, Enum: e, Parent: parent}
			}
			for _, m := range msgs {
				idx[prefix+m.Name] = &TypeInfo{File: f, Msg: m, Parent: parent}
				walk(prefix+m.Name+".", m, m.Nested, m.Enums)
				for _, fl := range m.Fields {
					if fl.Kind == "group" && fl.Group != nil {
						idx[prefix+m.Name+"."+fl.Group.Name] = &TypeInfo{File: f, Msg: fl.Group, Parent: m}
						walk(prefix+m.Name+"."+fl.Group.Name+".", fl.Group, fl.Group.Nested, fl.Group.Enums)
					}
				}
			}
		}
		pfx := ""
		if f.Package != "" {
			pfx = f.Package + "."
		}
		walk(pfx, nil, f.Messages, f.Enums)
	}
	return idx
}

var wktFileOf = map[string]string{
	"google.protobuf.Timestamp":   "google/protobuf/timestamp.proto",
	"google.protobuf.Duration":    "google/protobuf/duration.proto",
	"google.protobuf.Any":         "google/protobuf/any.proto",
	"google.protobuf.Empty":       "google/protobuf/empty.proto",
	"google.protobuf.StringValue": "google/protobuf/wrappers.proto",
	"google.protobuf.Int64Value":  "google/protobuf/wrappers.proto",
	"google.protobuf.Struct":      "google/protobuf/struct.proto",
	"google.protobuf.FieldMask":   "google/protobuf/field_mask.proto",
}

func isDescriptorOption(t string) bool {
	return strings.HasPrefix(t, "google.protobuf.") && strings.HasSuffix(t, "Options")
}

// typeFile returns the import path that provides the named type ("" if local to f or unknown).
func typeFile(idx map[string]*TypeInfo, f *File, t string) string {
	if p, ok := wktFileOf[t]; ok {
		return p
	}
	if isDescriptorOption(t) {
		return "google/protobuf/descriptor.proto"
	}
	if ti, ok := idx[t]; ok && ti.File != f {
		return ti.File.Path
	}
	return ""
}

// refsOfField lists the type names a field refers to.
func refsOfField(fl *Field) []string {
	var out []string
	switch fl.Kind {
	case "message", "enum":
		out = append(out, fl.Type)
	case "map":
		if fl.MapValK != "scalar" {
			out = append(out, fl.MapVal)
		}
	case "group":
		if fl.Group != nil {
			out = append(out, refsOfMessage(fl.Group)...)
		}
	}
	return out
}

func refsOfMessage(m *Message) []string {
	var out []string
	for _, fl := range m.Fields {
		out = append(out, refsOfField(fl)...)
	}
	for _, n := range m.Nested {
		out = append(out, refsOfMessage(n)...)
	}
	for _, e := range m.Extends {
		out = append(out, e.Extendee)
		for _, fl := range e.Fields {
			out = append(out, refsOfField(fl)...)
		}
	}
	return out
}

// optionExtensionRefs returns full names of custom option extensions used ("(a.b.c)" names).
func optRefs(opts []Opt) []string {
	var out []string
	for _, o := range opts {
		if strings.HasPrefix(o.Name, "(") {
			end := strings.Index(o.Name, ")")
			if end > 0 {
				out = append(out, o.Name[1:end])
			}
		}
	}
	return out
}

// ExtIndex maps extension field full names (pkg.name or pkg.Msg.name) to their declaring file.
func (s *Schema) ExtIndex() map[string]*File {
	idx := map[string]*File{}
	for _, f := range s.AllFiles() {
		pfx := ""
		if f.Package != "" {
			pfx = f.Package + "."
		}
		for _, e := range f.Extends {
			for _, fl := range e.Fields {
				idx[pfx+fl.Name] = f
			}
		}
		var walk func(prefix string, msgs []*Message)
		walk = func(prefix string, msgs []*Message) {
			for _, m := range msgs {
				for _, e := range m.Extends {
					for _, fl := range e.Fields {
						idx[prefix+m.Name+"."+fl.Name] = f
					}
				}
				walk(prefix+m.Name+".", m.Nested)
			}
		}
		walk(pfx, f.Messages)
	}
	return idx
}

func allOptsOfFile(f *File) []Opt {
	var out []Opt
	out = append(out, f.Options...)
	var walkM func(m *Message)
	walkE := func(e *Enum) {
		out = append(out, e.Options...)
		for _, v := range e.Values {
			out = append(out, v.Options...)
		}
	}
	walkF := func(fl *Field) { out = append(out, fl.Options...) }
	walkM = func(m *Message) {
		out = append(out, m.Options...)
		for _, r := range m.ExtRanges {
			out = append(out, r.Options...)
		}
		for _, fl := range m.Fields {
			walkF(fl)
			if fl.Group != nil {
				walkM(fl.Group)
			}
		}
		for _, n := range m.Nested {
			walkM(n)
		}
		for _, e := range m.Enums {
			walkE(e)
		}
		for _, x := range m.Extends {
			for _, fl := range x.Fields {
				walkF(fl)
			}
		}
	}
	for _, m := range f.Messages {
		walkM(m)
	}
	for _, e := range f.Enums {
		walkE(e)
	}
	for _, x := range f.Extends {
		for _, fl := range x.Fields {
			walkF(fl)
		}
	}
	for _, sv := range f.Services {
		out = append(out, sv.Options...)
		for _, m := range sv.Methods {
			out = append(out, m.Options...)
		}
	}
	return out
}

// ImportsOf computes the import statements of a file: those induced by type, extendee and custom
// option references, plus ExtraImports; sorted by path; each path once.
func (s *Schema) ImportsOf(f *File) []Import {
	idx := s.TypeIndex()
	ext := s.ExtIndex()
	need := map[string]bool{}
	add := func(t string) {
		if p := typeFile(idx, f, t); p != "" && p != f.Path {
			need[p] = true
		}
	}
	for _, m := range f.Messages {
		for _, t := range refsOfMessage(m) {
			add(t)
		}
	}
	for _, e := range f.Extends {
		add(e.Extendee)
		for _, fl := range e.Fields {
			for _, t := range refsOfField(fl) {
				add(t)
			}
		}
	}
	for _, sv := range f.Services {
		for _, m := range sv.Methods {
			add(m.In)
			add(m.Out)
		}
	}
	for _, name := range optRefs(allOptsOfFile(f)) {
		if ef, ok := ext[name]; ok && ef != f {
			need[ef.Path] = true
		}
	}
	pub := map[string]bool{}
	for _, p := range f.PublicImports {
		pub[p] = true
	}
	weak := map[string]bool{}
	for _, p := range f.WeakImports {
		weak[p] = true
	}
	var out []Import
	seen := map[string]bool{}
	for p := range need {
		out = append(out, Import{Path: p, Public: pub[p], Weak: weak[p] && !pub[p]})
		seen[p] = true
	}
	for _, im := range f.ExtraImports {
		if !seen[im.Path] {
			out = append(out, im)
			seen[im.Path] = true
		}
	}
	sort.Slice(out, func(i, j int) bool { return out[i].Path < out[j].Path })
	return out
}

// UsedImportPaths are the imports induced by references (the rest are unused imports).
func (s *Schema) UsedImportPaths(f *File) map[string]bool {
	saved := f.ExtraImports
	f.ExtraImports = nil
	defer func() { f.ExtraImports = saved }()
	out := map[string]bool{}
	for _, im := range s.ImportsOf(f) {
		out[im.Path] = true
	}
	return out
}

func (r Range) String() string {
	if r.Lo == r.Hi {
		return fmt.Sprint(r.Lo)
	}
	if r.Hi >= 536870911 {
		return fmt.Sprintf("%d to max", r.Lo)
	}
	return fmt.Sprintf("%d to %d", r.Lo, r.Hi)
}
