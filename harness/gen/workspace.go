package gen

import (
	"fmt"
	"strings"
)

// WorkspaceOpts selects the configuration files written around the sources.
type WorkspaceOpts struct {
	Version  string // "v2" (buf.yaml at root), "v1" (buf.work.yaml + per-module buf.yaml v1), "v1beta1"
	Lint     string // YAML fragment for the lint section body (indented by two spaces per level below "lint:"), "" for default
	Breaking string
}

func indent(s, pad string) string {
	var out []string
	for _, l := range strings.Split(strings.TrimRight(s, "\n"), "\n") {
		out = append(out, pad+l)
	}
	return strings.Join(out, "\n") + "\n"
}

// WorkspaceFiles returns workspace-relative path -> content for the sources and the config files.
func (s *Schema) WorkspaceFiles(r *Rendered, o WorkspaceOpts) map[string]string {
	out := r.Flat()
	switch o.Version {
	case "v1", "v1beta1":
		var sb strings.Builder
		sb.WriteString("version: v1\ndirectories:\n")
		for _, m := range s.Modules {
			sb.WriteString("  - " + m.Dir + "\n")
		}
		out["buf.work.yaml"] = sb.String()
		for _, m := range s.Modules {
			var mb strings.Builder
			mb.WriteString("version: " + o.Version + "\n")
			if m.Name != "" {
				mb.WriteString("name: " + m.Name + "\n")
			}
			if o.Lint != "" {
				mb.WriteString("lint:\n" + indent(o.Lint, "  "))
			}
			if o.Breaking != "" {
				mb.WriteString("breaking:\n" + indent(o.Breaking, "  "))
			}
			out[m.Dir+"/buf.yaml"] = mb.String()
		}
	default:
		var sb strings.Builder
		sb.WriteString("version: v2\nmodules:\n")
		for _, m := range s.Modules {
			sb.WriteString("  - path: " + m.Dir + "\n")
			if m.Name != "" {
				sb.WriteString("    name: " + m.Name + "\n")
			}
		}
		if o.Lint != "" {
			sb.WriteString("lint:\n" + indent(o.Lint, "  "))
		}
		if o.Breaking != "" {
			sb.WriteString("breaking:\n" + indent(o.Breaking, "  "))
		}
		out["buf.yaml"] = sb.String()
	}
	return out
}

// Describe summarises the shape of a schema for evidence keys.
func (s *Schema) Describe() string {
	nf, nm, ne, ns := 0, 0, 0, 0
	syn := map[string]bool{}
	for _, f := range s.AllFiles() {
		nf++
		nm += len(f.Messages)
		ne += len(f.Enums)
		ns += len(f.Services)
		syn[f.Syntax] = true
	}
	var sy []string
	for _, k := range []string{"proto2", "proto3", "editions", ""} {
		if syn[k] {
			sy = append(sy, k)
		}
	}
	return fmt.Sprintf("mods=%d files=%d msgs=%d enums=%d svcs=%d syn=%s", len(s.Modules), nf, nm, ne, ns, strings.Join(sy, "+"))
}
