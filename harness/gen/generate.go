package gen

import (
	"fmt"
	"math/rand/v2"
	"strings"
)

// Config steers the random generator. The default is a lint-clean (STANDARD + COMMENTS), compilable workspace.
type Config struct {
	Modules       int // number of modules (>=1)
	MinFiles      int
	MaxFiles      int
	Syntaxes      []string // subset of proto2, proto3, editions
	Services      bool
	Extensions    bool // proto2/editions extension ranges + extend blocks, custom options
	CustomOptions bool // a file of option extensions used across files
	Groups        bool // proto2 groups (not lint-relevant, used by format/filter/breaking workloads)
	WKT           bool
	MaxDepth      int // nesting depth of messages
	Named         bool
	Streaming     bool // allow streaming RPCs (violates UNARY_RPC only)
	Rich          bool // more fields/types per message
}

func DefaultConfig() Config {
	return Config{Modules: 2, MinFiles: 2, MaxFiles: 5, Syntaxes: []string{"proto2", "proto3", "editions"}, Services: true, Extensions: true, CustomOptions: true, WKT: true, MaxDepth: 2, Named: true}
}

var nouns = []string{"pet", "owner", "order", "item", "store", "user", "account", "invoice", "payment", "route", "stop", "ticket", "seat", "book", "author", "shelf", "track", "album", "note", "tag"}
var adjectives = []string{"big", "small", "fast", "slow", "red", "blue", "green", "old", "new", "raw"}
var verbs = []string{"Get", "List", "Create", "Update", "Delete", "Watch", "Search", "Lookup"}
var scalarTypes = []string{"double", "float", "int32", "int64", "uint32", "uint64", "sint32", "sint64", "fixed32", "fixed64", "sfixed32", "sfixed64", "bool", "string", "bytes"}
var mapKeyTypes = []string{"int32", "int64", "uint32", "uint64", "sint32", "sint64", "fixed32", "fixed64", "sfixed32", "sfixed64", "bool", "string"}

func Pascal(s string) string {
	var sb strings.Builder
	for _, p := range strings.Split(s, "_") {
		if p == "" {
			continue
		}
		sb.WriteString(strings.ToUpper(p[:1]) + p[1:])
	}
	return sb.String()
}

// UpperSnake converts PascalCase to UPPER_SNAKE_CASE the way buf's lint expects enum value prefixes.
func UpperSnake(s string) string {
	var sb strings.Builder
	for i, ch := range s {
		if i > 0 && ch >= 'A' && ch <= 'Z' {
			prev := s[i-1]
			if prev >= 'a' && prev <= 'z' || prev >= '0' && prev <= '9' {
				sb.WriteByte('_')
			} else if i+1 < len(s) && s[i+1] >= 'a' && s[i+1] <= 'z' {
				sb.WriteByte('_')
			}
		}
		sb.WriteRune(ch)
	}
	return strings.ToUpper(sb.String())
}

type generator struct {
	r   *rand.Rand
	cfg Config
	s   *Schema
	// types available for cross references: declared in earlier files
	msgTypes  []string
	enumTypes []string
	uniq      int
	// package-level DAG (keeps PACKAGE_NO_IMPORT_CYCLE quiet): a file may refer to types of its own
	// package and of packages that appeared earlier
	pkgRank    map[string]int
	typePkg    map[string]string
	curPkg     string
	pkgNames   map[string]map[string]bool // top-level names used per package
	extTags    map[string]bool            // extendee#number already used
	nestedOpts *File
}

func (g *generator) visible(pool []string) []string {
	var out []string
	for _, t := range pool {
		p, ok := g.typePkg[t]
		if !ok || p == g.curPkg || g.pkgRank[p] < g.pkgRank[g.curPkg] {
			out = append(out, t)
		}
	}
	return out
}

func (g *generator) word() string { return nouns[g.r.IntN(len(nouns))] }

func (g *generator) ident() string {
	g.uniq++
	if g.r.IntN(2) == 0 {
		return fmt.Sprintf("%s_%s", adjectives[g.r.IntN(len(adjectives))], g.word())
	}
	return g.word()
}

func (g *generator) uniqueName(used map[string]bool, mk func() string) string {
	for i := 0; ; i++ {
		n := mk()
		if i > 4 {
			n = fmt.Sprintf("%s%d", n, i)
		}
		if !used[strings.ToLower(n)] {
			used[strings.ToLower(n)] = true
			return n
		}
	}
}

func (g *generator) scalar() string { return scalarTypes[g.r.IntN(len(scalarTypes))] }

func defaultFor(r *rand.Rand, t string) string {
	switch t {
	case "bool":
		return []string{"true", "false"}[r.IntN(2)]
	case "string":
		return []string{`"x"`, `"hello world"`, `"a\"b"`, `""`}[r.IntN(4)]
	case "bytes":
		return []string{`"\x01\x02"`, `"raw"`}[r.IntN(2)]
	case "double", "float":
		return []string{"1.5", "-2", "1e3", "inf", "nan"}[r.IntN(5)]
	case "uint32", "uint64", "fixed32", "fixed64":
		return fmt.Sprint(r.IntN(1000))
	default:
		return fmt.Sprint(r.IntN(2000) - 1000)
	}
}

func (g *generator) enum(name string, syntax string, closedFirstNonZero bool) *Enum {
	e := &Enum{Name: name, Comment: name + " enumerates things."}
	prefix := UpperSnake(name) + "_"
	n := 2 + g.r.IntN(4)
	e.Values = append(e.Values, &EnumValue{Name: prefix + "UNSPECIFIED", Number: 0, Comment: "Unspecified value."})
	used := map[string]bool{}
	num := 0
	for i := 1; i < n; i++ {
		num += 1 + g.r.IntN(3)
		vn := g.uniqueName(used, func() string {
			w := strings.ToUpper(g.word())
			if g.r.IntN(6) == 0 {
				// a digit directly followed by upper-case letters is still UPPER_SNAKE_CASE
				w += "_" + []string{"2D", "3D", "4XX", "4K"}[g.r.IntN(4)]
			}
			return w
		})
		e.Values = append(e.Values, &EnumValue{Name: prefix + vn, Number: num, Comment: "Value " + vn + "."})
	}
	if g.r.IntN(4) == 0 {
		e.ReservedRanges = append(e.ReservedRanges, Range{Lo: num + 5, Hi: num + 5 + g.r.IntN(3)})
		if g.r.IntN(2) == 0 {
			e.ReservedNames = append(e.ReservedNames, prefix+"GONE")
		}
	}
	return e
}

// message builds a message with fields drawn from scalars, local nested types and earlier types.
func (g *generator) message(pkg, scope, name, syntax string, depth int) *Message {
	full := scope + name
	m := &Message{Name: name, Comment: name + " is a message.\nIt has fields.", OneofComments: map[string]string{}}
	used := map[string]bool{}
	localMsgs, localEnums := []string{}, []string{}
	if depth < g.cfg.MaxDepth && g.r.IntN(3) == 0 {
		nn := 1 + g.r.IntN(2)
		for i := 0; i < nn; i++ {
			nname := g.uniqueName(used, func() string { return Pascal(g.ident()) })
			if g.r.IntN(3) == 0 {
				m.Enums = append(m.Enums, g.enum(nname, syntax, false))
				localEnums = append(localEnums, full+"."+nname)
			} else {
				m.Nested = append(m.Nested, g.message(pkg, full+".", nname, syntax, depth+1))
				localMsgs = append(localMsgs, full+"."+nname)
			}
		}
	}
	nf := 1 + g.r.IntN(5)
	if g.cfg.Rich {
		nf += 3
	}
	num := 0
	fused := map[string]bool{}
	for k := range used {
		fused[k] = true
	}
	var oneofName string
	oneofLeft := 0
	for i := 0; i < nf; i++ {
		num += 1 + g.r.IntN(3)
		if num >= 19000 && num <= 19999 {
			num = 20000
		}
		fl := &Field{Name: g.uniqueName(fused, g.ident), Number: num}
		fl.Comment = "The " + strings.ReplaceAll(fl.Name, "_", " ") + "."
		if g.r.IntN(6) == 0 {
			fl.Trailing = "trailing note"
		}
		msgPool := append(append([]string{}, localMsgs...), g.visible(g.msgTypes)...)
		enumPool := append(append([]string{}, localEnums...), g.visible(g.enumTypes)...)
		switch k := g.r.IntN(10); {
		case k < 5:
			fl.Kind, fl.Type = "scalar", g.scalar()
		case k < 7 && len(msgPool) > 0:
			fl.Kind, fl.Type = "message", msgPool[g.r.IntN(len(msgPool))]
		case k < 8 && len(enumPool) > 0:
			fl.Kind, fl.Type = "enum", enumPool[g.r.IntN(len(enumPool))]
		case k < 9:
			fl.Kind = "map"
			fl.MapKey = mapKeyTypes[g.r.IntN(len(mapKeyTypes))]
			switch {
			case g.r.IntN(3) == 0 && len(msgPool) > 0:
				fl.MapVal, fl.MapValK = msgPool[g.r.IntN(len(msgPool))], "message"
			case g.r.IntN(3) == 0 && len(enumPool) > 0:
				fl.MapVal, fl.MapValK = enumPool[g.r.IntN(len(enumPool))], "enum"
			default:
				fl.MapVal, fl.MapValK = g.scalar(), "scalar"
			}
		case g.cfg.WKT:
			wk := []string{"google.protobuf.Timestamp", "google.protobuf.Duration", "google.protobuf.Any", "google.protobuf.StringValue", "google.protobuf.Struct", "google.protobuf.FieldMask"}
			fl.Kind, fl.Type = "message", wk[g.r.IntN(len(wk))]
		default:
			fl.Kind, fl.Type = "scalar", g.scalar()
		}
		// enums referenced from a proto3 file must be open (first value zero holds for all generated enums);
		// proto3 may not reference a proto2 (closed) enum: restrict enum refs by syntax compatibility
		if fl.Kind == "enum" && syntax == "proto3" && !g.enumOpen(fl.Type) {
			fl.Kind, fl.Type = "scalar", "int32"
		}
		if fl.Kind == "map" && fl.MapValK == "enum" && syntax == "proto3" && !g.enumOpen(fl.MapVal) {
			fl.MapVal, fl.MapValK = "int32", "scalar"
		}
		// label
		if fl.Kind != "map" {
			switch syntax {
			case "proto2":
				if oneofLeft == 0 {
					fl.Label = []string{"optional", "optional", "repeated"}[g.r.IntN(3)]
				}
			case "proto3":
				if oneofLeft == 0 {
					fl.Label = []string{"", "", "repeated", "optional"}[g.r.IntN(4)]
				}
			default:
				if oneofLeft == 0 && g.r.IntN(3) == 0 {
					fl.Label = "repeated"
				}
			}
		}
		// oneof membership
		if oneofLeft > 0 && fl.Kind != "map" && fl.Label == "" || (oneofLeft > 0 && fl.Kind != "map" && syntax == "proto2") {
			fl.Label = ""
			fl.Oneof = oneofName
			oneofLeft--
		} else if oneofLeft == 0 && fl.Kind != "map" && g.r.IntN(6) == 0 && i+1 < nf {
			oneofName = g.uniqueName(fused, g.ident)
			m.OneofComments[oneofName] = "The " + oneofName + " choice."
			fl.Label = ""
			fl.Oneof = oneofName
			oneofLeft = 1 + g.r.IntN(2)
		}
		// defaults (proto2 / editions, singular scalars and enums outside oneofs are allowed too)
		if (syntax == "proto2" || syntax == "editions") && fl.Kind == "scalar" && fl.Label != "repeated" && g.r.IntN(5) == 0 {
			fl.Default = defaultFor(g.r, fl.Type)
		}
		if fl.Kind == "scalar" && g.r.IntN(12) == 0 {
			fl.JSONName = "j" + Pascal(fl.Name)
		}
		if fl.Kind == "scalar" && (fl.Type == "int64" || fl.Type == "uint64" || fl.Type == "fixed64" || fl.Type == "sfixed64" || fl.Type == "sint64") && g.r.IntN(5) == 0 {
			fl.Options = append(fl.Options, Opt{"jstype", []string{"JS_STRING", "JS_NUMBER"}[g.r.IntN(2)]})
		}
		if g.r.IntN(15) == 0 {
			fl.Options = append(fl.Options, Opt{"deprecated", "true"})
		}
		if fl.Label == "repeated" && fl.Kind == "scalar" && fl.Type != "string" && fl.Type != "bytes" && syntax != "editions" && g.r.IntN(4) == 0 {
			fl.Options = append(fl.Options, Opt{"packed", []string{"true", "false"}[g.r.IntN(2)]})
		}
		m.Fields = append(m.Fields, fl)
	}
	if g.r.IntN(4) == 0 {
		m.ReservedRanges = append(m.ReservedRanges, Range{Lo: num + 10, Hi: num + 10 + g.r.IntN(5)})
		if g.r.IntN(2) == 0 {
			m.ReservedNames = append(m.ReservedNames, "gone_"+g.word())
		}
	}
	if g.cfg.Extensions && (syntax == "proto2" || syntax == "editions") && g.r.IntN(4) == 0 {
		m.ExtRanges = append(m.ExtRanges, Range{Lo: 1000 + num, Hi: 1000 + num + 99})
	}
	return m
}

func (g *generator) enumOpen(full string) bool {
	idx := g.s.TypeIndex()
	ti, ok := idx[full]
	if !ok {
		return true
	}
	return ti.File.Syntax != "proto2"
}

// Generate builds a random schema.
func Generate(r *rand.Rand, cfg Config) *Schema {
	g := &generator{r: r, cfg: cfg, s: &Schema{}, pkgRank: map[string]int{}, typePkg: map[string]string{}, pkgNames: map[string]map[string]bool{}, extTags: map[string]bool{}}
	if cfg.Modules < 1 {
		cfg.Modules = 1
	}
	if len(cfg.Syntaxes) == 0 {
		cfg.Syntaxes = []string{"proto3"}
	}
	g.cfg = cfg
	usedPkgs := map[string]bool{}
	var optsFile *File
	for mi := 0; mi < cfg.Modules; mi++ {
		modWord := fmt.Sprintf("%s%d", nouns[(mi*7+r.IntN(len(nouns)))%len(nouns)], mi)
		mod := &Module{Dir: []string{"proto", "vendor/" + modWord, "mods/" + modWord, modWord}[mi%4]}
		if mi == 0 {
			mod.Dir = "proto"
		}
		if cfg.Named {
			mod.Name = "buf.test/acme/" + modWord
		}
		g.s.Modules = append(g.s.Modules, mod)
		nfiles := cfg.MinFiles + r.IntN(cfg.MaxFiles-cfg.MinFiles+1)
		// packages: 1..3 per module; files of a package share a directory
		npk := 1 + r.IntN(min(3, nfiles))
		var pkgs []string
		for len(pkgs) < npk {
			p := fmt.Sprintf("acme.%s.%s.v1", modWord, nouns[r.IntN(len(nouns))])
			if !usedPkgs[p] {
				usedPkgs[p] = true
				pkgs = append(pkgs, p)
				g.pkgRank[p] = len(g.pkgRank) + 1
				g.pkgNames[p] = map[string]bool{}
			}
		}
		// sibling packages whose directories are string prefixes of each other (…/v1 and …/v1beta1)
		if r.IntN(3) == 0 {
			p := strings.TrimSuffix(pkgs[r.IntN(len(pkgs))], ".v1") + ".v1beta1"
			if !usedPkgs[p] {
				usedPkgs[p] = true
				pkgs = append(pkgs, p)
				g.pkgRank[p] = len(g.pkgRank) + 1
				g.pkgNames[p] = map[string]bool{}
				if nfiles < len(pkgs) {
					nfiles = len(pkgs)
				}
			}
		}
		if cfg.CustomOptions && mi == 0 {
			optsFile = g.optionsFile(modWord)
			mod.Files = append(mod.Files, optsFile)
			// a second options file whose only extension is declared inside a message
			g.nestedOpts = &File{Path: strings.ReplaceAll(optsFile.Package, ".", "/") + "/nested_opts.proto", Syntax: "proto2", Package: optsFile.Package,
				Messages: []*Message{{Name: "OptionHolder", Comment: "OptionHolder only scopes an option.",
					Fields: []*Field{{Name: "note", Number: 1, Label: "optional", Kind: "scalar", Type: "string", Comment: "A note (every generated message has at least one field)."}}, Extends: []*Extend{{Extendee: "google.protobuf.FieldOptions",
						Fields: []*Field{{Name: "nested_tag", Number: 50020, Label: "optional", Kind: "scalar", Type: "string", Comment: "A nested option."}}}}}}}
			mod.Files = append(mod.Files, g.nestedOpts)
		}
		pkgSyntax := map[string]string{}
		pkgOpts := map[string][]Opt{}
		usedFileNames := map[string]bool{}
		for fi := 0; fi < nfiles; fi++ {
			pkg := pkgs[fi%len(pkgs)]
			if _, ok := pkgSyntax[pkg]; !ok {
				pkgSyntax[pkg] = cfg.Syntaxes[r.IntN(len(cfg.Syntaxes))]
				if r.IntN(3) == 0 {
					pkgOpts[pkg] = []Opt{{"go_package", fmt.Sprintf("%q", "example.com/gen/"+strings.ReplaceAll(pkg, ".", "/"))}, {"java_multiple_files", "true"}, {"java_package", fmt.Sprintf("%q", "com."+pkg)}}
				}
			}
			syntax := pkgSyntax[pkg]
			if r.IntN(4) == 0 {
				syntax = cfg.Syntaxes[r.IntN(len(cfg.Syntaxes))]
			}
			base := g.uniqueName(usedFileNames, g.ident)
			f := &File{Path: strings.ReplaceAll(pkg, ".", "/") + "/" + base + ".proto", Syntax: syntax, Package: pkg, Options: append([]Opt{}, pkgOpts[pkg]...)}
			if r.IntN(3) == 0 {
				f.Header = "Copyright notice.\n\nFile " + base + "."
			}
			g.fillFile(f, optsFile)
			mod.Files = append(mod.Files, f)
			g.publish(f)
		}
	}
	return g.s
}

func (g *generator) publish(f *File) {
	for _, m := range f.Messages {
		g.msgTypes = append(g.msgTypes, f.Package+"."+m.Name)
		g.typePkg[f.Package+"."+m.Name] = f.Package
		// enums and messages nested in a top-level message can be referred to from elsewhere too
		for _, e := range m.Enums {
			g.enumTypes = append(g.enumTypes, f.Package+"."+m.Name+"."+e.Name)
			g.typePkg[f.Package+"."+m.Name+"."+e.Name] = f.Package
		}
		for _, n := range m.Nested {
			g.msgTypes = append(g.msgTypes, f.Package+"."+m.Name+"."+n.Name)
			g.typePkg[f.Package+"."+m.Name+"."+n.Name] = f.Package
		}
	}
	for _, e := range f.Enums {
		g.enumTypes = append(g.enumTypes, f.Package+"."+e.Name)
		g.typePkg[f.Package+"."+e.Name] = f.Package
	}
}

func (g *generator) optionsFile(modWord string) *File {
	pkg := "acme." + modWord + ".opts.v1"
	f := &File{Path: strings.ReplaceAll(pkg, ".", "/") + "/opts.proto", Syntax: "proto2", Package: pkg}
	f.Extends = append(f.Extends,
		&Extend{Extendee: "google.protobuf.FieldOptions", Fields: []*Field{
			{Name: "field_tag", Number: 50001, Label: "optional", Kind: "scalar", Type: "string", Comment: "A field tag."},
			{Name: "field_level", Number: 50002, Label: "optional", Kind: "scalar", Type: "int32", Comment: "A field level."}}},
		&Extend{Extendee: "google.protobuf.MessageOptions", Fields: []*Field{
			{Name: "message_tag", Number: 50001, Label: "optional", Kind: "scalar", Type: "string", Comment: "A message tag."}}},
		&Extend{Extendee: "google.protobuf.FileOptions", Fields: []*Field{
			{Name: "file_tags", Number: 50001, Label: "repeated", Kind: "scalar", Type: "string", Comment: "File tags."}}},
		&Extend{Extendee: "google.protobuf.EnumValueOptions", Fields: []*Field{
			{Name: "value_tag", Number: 50001, Label: "optional", Kind: "scalar", Type: "string", Comment: "A value tag."}}},
		&Extend{Extendee: "google.protobuf.MethodOptions", Fields: []*Field{
			{Name: "method_tag", Number: 50001, Label: "optional", Kind: "scalar", Type: "string", Comment: "A method tag."}}},
	)
	return f
}

func (g *generator) fillFile(f *File, optsFile *File) {
	r := g.r
	g.curPkg = f.Package
	used := g.pkgNames[f.Package]
	if used == nil {
		used = map[string]bool{}
		g.pkgNames[f.Package] = used
	}
	ne := r.IntN(3)
	for i := 0; i < ne; i++ {
		name := g.uniqueName(used, func() string { return Pascal(g.ident()) })
		e := g.enum(name, f.Syntax, false)
		f.Enums = append(f.Enums, e)
	}
	// local enums are referable by this file's messages
	savedEnums := g.enumTypes
	for _, e := range f.Enums {
		g.enumTypes = append(g.enumTypes, f.Package+"."+e.Name)
	}
	nm := 1 + r.IntN(4)
	savedMsgs := g.msgTypes
	for i := 0; i < nm; i++ {
		name := g.uniqueName(used, func() string { return Pascal(g.ident()) })
		m := g.message(f.Package, f.Package+".", name, f.Syntax, 0)
		f.Messages = append(f.Messages, m)
		g.msgTypes = append(g.msgTypes, f.Package+"."+name)
		for _, e := range m.Enums {
			g.enumTypes = append(g.enumTypes, f.Package+"."+name+"."+e.Name)
		}
		for _, n := range m.Nested {
			g.msgTypes = append(g.msgTypes, f.Package+"."+name+"."+n.Name)
		}
	}
	if g.cfg.Groups && f.Syntax == "proto2" && len(f.Messages) > 0 && r.IntN(2) == 0 {
		m := f.Messages[r.IntN(len(f.Messages))]
		gname := "Grp" + Pascal(g.word())
		grp := &Message{Name: gname, Fields: []*Field{{Name: "inner_value", Number: 1, Label: "optional", Kind: "scalar", Type: "string", Comment: "Inner."}}}
		m.Fields = append(m.Fields, &Field{Name: strings.ToLower(gname), Number: 900, Label: "optional", Kind: "group", Group: grp, Comment: "A group."})
	}
	if g.cfg.Services && r.IntN(2) == 0 {
		tries := 0
		svName := g.uniqueName(used, func() string {
			// a disambiguating number goes before the suffix that SERVICE_SUFFIX demands
			tries++
			w := Pascal(g.word())
			if tries > 3 {
				w += fmt.Sprint(tries)
			}
			return w + "Service"
		})
		sv := &Service{Name: svName, Comment: svName + " serves."}
		nrpc := 1 + r.IntN(3)
		usedRPC := map[string]bool{}
		for i := 0; i < nrpc; i++ {
			rn := g.uniqueName(usedRPC, func() string { return verbs[r.IntN(len(verbs))] + Pascal(g.word()) })
			if used[strings.ToLower(rn+"Request")] || used[strings.ToLower(rn+"Response")] {
				continue
			}
			used[strings.ToLower(rn+"Request")], used[strings.ToLower(rn+"Response")] = true, true
			req := g.message(f.Package, f.Package+".", rn+"Request", f.Syntax, g.cfg.MaxDepth)
			resp := g.message(f.Package, f.Package+".", rn+"Response", f.Syntax, g.cfg.MaxDepth)
			f.Messages = append(f.Messages, req, resp)
			m := &Method{Name: rn, In: f.Package + "." + req.Name, Out: f.Package + "." + resp.Name, Comment: rn + " does it."}
			if g.cfg.Streaming && r.IntN(3) == 0 {
				m.ClientStream = r.IntN(2) == 0
				m.ServerStream = !m.ClientStream || r.IntN(2) == 0
			}
			if r.IntN(4) == 0 {
				m.Options = append(m.Options, Opt{"idempotency_level", []string{"NO_SIDE_EFFECTS", "IDEMPOTENT"}[r.IntN(2)]})
			}
			if optsFile != nil && r.IntN(4) == 0 {
				m.Options = append(m.Options, Opt{"(" + optsFile.Package + ".method_tag)", `"m"`})
			}
			sv.Methods = append(sv.Methods, m)
		}
		if len(sv.Methods) > 0 {
			f.Services = append(f.Services, sv)
		}
	}
	// extensions of an earlier or local extendable message
	if g.cfg.Extensions && (f.Syntax == "proto2" || f.Syntax == "editions") {
		var extendable []string
		idx := g.s.TypeIndex()
		for name, ti := range idx {
			if ti.Msg != nil && len(ti.Msg.ExtRanges) > 0 && (ti.File.Package == f.Package || g.pkgRank[ti.File.Package] < g.pkgRank[f.Package]) && ti.File != f {
				extendable = append(extendable, name)
			}
		}
		for _, m := range f.Messages {
			if len(m.ExtRanges) > 0 {
				extendable = append(extendable, f.Package+"."+m.Name)
			}
		}
		if len(extendable) > 0 && r.IntN(2) == 0 {
			sortStrings(extendable)
			target := extendable[r.IntN(len(extendable))]
			var rg Range
			if ti, ok := idx[target]; ok {
				rg = ti.Msg.ExtRanges[0]
			} else {
				for _, m := range f.Messages {
					if f.Package+"."+m.Name == target {
						rg = m.ExtRanges[0]
					}
				}
			}
			label := "optional"
			if f.Syntax == "editions" {
				label = ""
			}
			tag := rg.Lo + r.IntN(rg.Hi-rg.Lo+1)
			for g.extTags[fmt.Sprintf("%s#%d", target, tag)] {
				tag = rg.Lo + r.IntN(rg.Hi-rg.Lo+1)
			}
			g.extTags[fmt.Sprintf("%s#%d", target, tag)] = true
			ext := &Extend{Extendee: target, Fields: []*Field{{Name: g.uniqueNameLower(used, "ext_"+g.word()), Number: tag, Label: label, Kind: "scalar", Type: g.scalar(), Comment: "An extension."}}}
			f.Extends = append(f.Extends, ext)
		}
	}
	// custom option uses
	if optsFile != nil {
		op := optsFile.Package
		for _, m := range f.Messages {
			if r.IntN(4) == 0 {
				m.Options = append(m.Options, Opt{"(" + op + ".message_tag)", fmt.Sprintf("%q", "tag-"+m.Name)})
			}
			for _, fl := range m.Fields {
				if r.IntN(8) == 0 && fl.Kind != "group" {
					fl.Options = append(fl.Options, Opt{"(" + op + ".field_tag)", fmt.Sprintf("%q", fl.Name)})
				} else if g.nestedOpts != nil && r.IntN(10) == 0 && fl.Kind != "group" {
					fl.Options = append(fl.Options, Opt{"(" + op + ".OptionHolder.nested_tag)", fmt.Sprintf("%q", "n-"+fl.Name)})
				}
			}
		}
		if r.IntN(4) == 0 {
			f.Options = append(f.Options, Opt{"(" + op + ".file_tags)", `"one"`}, Opt{"(" + op + ".file_tags)", `"two"`})
		}
	}
	g.enumTypes = savedEnums
	g.msgTypes = savedMsgs
}

func (g *generator) uniqueNameLower(used map[string]bool, base string) string {
	n := base
	for i := 2; used[n]; i++ {
		n = fmt.Sprintf("%s%d", base, i)
	}
	used[n] = true
	return n
}

func sortStrings(s []string) {
	for i := 1; i < len(s); i++ {
		for j := i; j > 0 && s[j] < s[j-1]; j-- {
			s[j], s[j-1] = s[j-1], s[j]
		}
	}
}
