// Package core is the case runner of the verification harness: fixed case lists
// derived from (seed, tier), sharded over child worker processes that journal each
// case before executing it, three-valued verdicts, evidence and replay writers, and
// the known-findings matcher.
package core

import (
	"encoding/json"
	"fmt"
	"hash/fnv"
	"math/rand/v2"
	"os"
	"path/filepath"
	"sort"
	"strings"
	"sync"
)

// VerifDir is /verif; development copies of the framework override it through VERIF_DIR
// (set by the check script to its own directory).
var VerifDir = func() string {
	if d := os.Getenv("VERIF_DIR"); d != "" {
		return d
	}
	return "/verif"
}()

// Check is one property's workload × monitor × oracle.
type Check struct {
	ID          string
	Level       string // exploration | fault_enumeration
	Rule        string
	Assumptions []string
	Exhaustive  bool
	// Cases returns the number of cases of the plain (non-race) part for a tier.
	Cases func(tier string) int
	// Run executes case idx and reports through c.
	Run func(c *C, idx int)
	// RaceCases / RunRace: the part executed in the -race build (optional).
	RaceCases func(tier string) int
	RunRace   func(c *C, idx int)
	// Required counters: the run is inconclusive if any of them is zero.
	Required []string
	// MaxWorkers caps the worker count (0 = 16).
	MaxWorkers int
	// Needs lists auxiliary binaries: "buf", "bufrace", "plugins", "race".
	Needs []string
	// WatchdogSec per worker (0 = default).
	WatchdogSec map[string]int
}

// Violation is one refutation observed by a monitor.
type Violation struct {
	// Class names the oracle clause that failed.
	Class string `json:"class"`
	// Key identifies the specific input / call site / history (used by known findings).
	Key     string         `json:"key"`
	Message string         `json:"message"`
	Case    int            `json:"case"`
	Race    bool           `json:"race,omitempty"`
	Detail  map[string]any `json:"detail,omitempty"`
}

// Result is what a worker reports.
type Result struct {
	Cases      int                        `json:"cases"`
	Evals      int                        `json:"evals"`
	Counters   map[string]int             `json:"counters"`
	Distinct   map[string]map[string]bool `json:"distinct"`
	Samples    []any                      `json:"samples"`
	Violations []Violation                `json:"violations"`
	Dropped    int                        `json:"dropped_violations"`
	Notes      []string                   `json:"notes,omitempty"`
}

func NewResult() *Result {
	return &Result{Counters: map[string]int{}, Distinct: map[string]map[string]bool{}}
}

func (r *Result) Merge(o *Result) {
	r.Cases += o.Cases
	r.Evals += o.Evals
	for k, v := range o.Counters {
		r.Counters[k] += v
	}
	for s, m := range o.Distinct {
		if r.Distinct[s] == nil {
			r.Distinct[s] = map[string]bool{}
		}
		for k := range m {
			r.Distinct[s][k] = true
		}
	}
	for _, s := range o.Samples {
		if len(r.Samples) < 8 {
			r.Samples = append(r.Samples, s)
		}
	}
	r.Violations = append(r.Violations, o.Violations...)
	r.Dropped += o.Dropped
	r.Notes = append(r.Notes, o.Notes...)
}

// C is the context handed to a case.
type C struct {
	ID     string
	Tier   string
	Seed   uint64
	Idx    int
	Race   bool
	Rand   *rand.Rand
	Tmp    string // per-worker scratch directory (emptied between cases by the check if it wants)
	Replay bool
	mu     sync.Mutex
	res    *Result
}

// NewDetachedC returns a context whose reports go nowhere (for helper child processes that
// communicate through their own log).
func NewDetachedC(id string, seed uint64, idx int) *C {
	return &C{ID: id, Seed: seed, Idx: idx, Tier: "quick", res: NewResult(), Rand: RandFor(seed, id, idx, "detached")}
}

func (c *C) Thorough() bool { return c.Tier == "thorough" }

// Pick returns q for quick and t for thorough.
func (c *C) Pick(q, t int) int {
	if c.Thorough() {
		return t
	}
	return q
}

func hash64(s string) uint64 {
	h := fnv.New64a()
	h.Write([]byte(s))
	return h.Sum64()
}

// RandFor returns an independent PRNG stream for (seed, id, idx, salt).
func RandFor(seed uint64, id string, idx int, salt string) *rand.Rand {
	return rand.New(rand.NewPCG(seed*0x9E3779B97F4A7C15+hash64(id+"/"+salt), uint64(idx)*0xD1B54A32D192ED03+1))
}

// Eval counts n executions of real code under an oracle.
func (c *C) Eval(n int) {
	c.mu.Lock()
	c.res.Evals += n
	c.mu.Unlock()
}

func (c *C) Count(key string, n int) {
	c.mu.Lock()
	c.res.Counters[key] += n
	c.mu.Unlock()
}

// Distinct records key in the named set; the set "nontrivial" feeds distinct_nontrivial.
func (c *C) Distinct(set, key string) {
	c.mu.Lock()
	m := c.res.Distinct[set]
	if m == nil {
		m = map[string]bool{}
		c.res.Distinct[set] = m
	}
	if len(key) > 96 {
		key = fmt.Sprintf("%s…#%016x", key[:64], hash64(key))
	}
	m[key] = true
	c.mu.Unlock()
}

func (c *C) Nontrivial(key string) { c.Distinct("nontrivial", key) }

func (c *C) Sample(v any) {
	c.mu.Lock()
	if len(c.res.Samples) < 3 {
		c.res.Samples = append(c.res.Samples, v)
	}
	c.mu.Unlock()
}

func (c *C) Note(format string, args ...any) {
	c.mu.Lock()
	if len(c.res.Notes) < 20 {
		c.res.Notes = append(c.res.Notes, fmt.Sprintf(format, args...))
	}
	c.mu.Unlock()
}

// Violation records a refutation. class = oracle clause, key = the specific failing input.
func (c *C) Violation(class, key, message string, detail map[string]any) {
	c.mu.Lock()
	defer c.mu.Unlock()
	for _, v := range c.res.Violations {
		if v.Class == class && v.Key == key {
			return
		}
	}
	perClass := 0
	for _, v := range c.res.Violations {
		if v.Class == class {
			perClass++
		}
	}
	if perClass >= 12 || len(c.res.Violations) >= 60 {
		c.res.Dropped++
		return
	}
	if len(message) > 4000 {
		message = message[:4000] + "…"
	}
	c.res.Violations = append(c.res.Violations, Violation{Class: class, Key: key, Message: message, Case: c.Idx, Race: c.Race, Detail: detail})
	if c.Replay {
		fmt.Printf("violation class=%s key=%s\n  %s\n", class, key, message)
	}
}

func (c *C) Violationf(class, key, format string, args ...any) {
	c.Violation(class, key, fmt.Sprintf(format, args...), nil)
}

// ---- known findings ---------------------------------------------------------------

type Finding struct {
	Fixed    bool
	Property string
	ID       string
	Class    string // exact class, or prefix ending in '*'
	Key      string // exact key, or prefix ending in '*'
	Text     string
}

func glob(pat, s string) bool {
	if strings.HasSuffix(pat, "*") {
		return strings.HasPrefix(s, strings.TrimSuffix(pat, "*"))
	}
	return pat == s
}

// LoadFindings parses /verif/known_findings.txt.
//
//	finding: property=C07 id=C07-F1 class=<class> key=<key> :: what fails
//	fixed: property=C13 <commit> what failed
func LoadFindings() []Finding {
	data, err := os.ReadFile(filepath.Join(VerifDir, "known_findings.txt"))
	if err != nil {
		return nil
	}
	var out []Finding
	for _, line := range strings.Split(string(data), "\n") {
		line = strings.TrimSpace(line)
		if !strings.HasPrefix(line, "finding:") {
			continue
		}
		f := Finding{}
		head, text, _ := strings.Cut(strings.TrimPrefix(line, "finding:"), "::")
		f.Text = strings.TrimSpace(text)
		// key may contain spaces: it is the last attribute and extends to '::'
		head = strings.TrimSpace(head)
		if i := strings.Index(head, " key="); i >= 0 {
			f.Key = strings.TrimSpace(head[i+5:])
			head = head[:i]
		}
		for _, kv := range strings.Fields(head) {
			k, v, _ := strings.Cut(kv, "=")
			switch k {
			case "property":
				f.Property = v
			case "id":
				f.ID = v
			case "class":
				f.Class = v
			}
		}
		out = append(out, f)
	}
	return out
}

func MatchFinding(fs []Finding, prop string, v Violation) *Finding {
	for i := range fs {
		f := &fs[i]
		if f.Property == prop && glob(f.Class, v.Class) && glob(f.Key, v.Key) {
			return f
		}
	}
	return nil
}

// ---- evidence -----------------------------------------------------------------------

type Evidence struct {
	PropertyID  string         `json:"property_id"`
	Tier        string         `json:"tier"`
	Seed        int64          `json:"seed"`
	Level       string         `json:"level"`
	Coverage    map[string]any `json:"coverage"`
	Assumptions []string       `json:"assumptions"`
	WallS       float64        `json:"wall_s"`
	Violations  int            `json:"violations"`
	Verdict     string         `json:"verdict"`
	Known       []string       `json:"known_findings_reproduced,omitempty"`
}

func WriteEvidence(ch *Check, tier string, seed uint64, res *Result, wall float64, verdict string, nviol int, known []string, extraAssume []string) error {
	distinctCounts := map[string]int{}
	for s, m := range res.Distinct {
		distinctCounts[s] = len(m)
	}
	samples := res.Samples
	if len(samples) == 0 {
		samples = []any{"(no sample recorded)"}
	}
	counters := map[string]int{}
	for k, v := range res.Counters {
		counters[k] = v
	}
	cov := map[string]any{
		"evaluations":         res.Evals,
		"distinct_nontrivial": distinctCounts["nontrivial"],
		"rule":                ch.Rule,
		"samples":             samples,
		"cases":               res.Cases,
		"counters":            counters,
		"distinct_sets":       distinctCounts,
		"exhaustive":          ch.Exhaustive,
	}
	if len(res.Notes) > 0 {
		cov["notes"] = res.Notes
	}
	// a few members of each distinct set, so a reader sees what they look like
	peek := map[string][]string{}
	for s, m := range res.Distinct {
		keys := make([]string, 0, len(m))
		for k := range m {
			keys = append(keys, k)
		}
		sort.Strings(keys)
		if len(keys) > 12 {
			step := len(keys) / 12
			var sel []string
			for i := 0; i < len(keys) && len(sel) < 12; i += step {
				sel = append(sel, keys[i])
			}
			keys = sel
		}
		peek[s] = keys
	}
	cov["distinct_peek"] = peek
	ev := Evidence{
		PropertyID: ch.ID, Tier: tier, Seed: int64(seed), Level: ch.Level, Coverage: cov,
		Assumptions: append(append([]string{}, ch.Assumptions...), extraAssume...),
		WallS:       wall, Violations: nviol, Verdict: verdict, Known: known,
	}
	if ev.Assumptions == nil {
		ev.Assumptions = []string{}
	}
	data, err := json.MarshalIndent(ev, "", " ")
	if err != nil {
		return err
	}
	dir := filepath.Join(VerifDir, "evidence")
	if err := os.MkdirAll(dir, 0o755); err != nil {
		return err
	}
	tmp := filepath.Join(dir, "."+ch.ID+".json.tmp")
	if err := os.WriteFile(tmp, data, 0o644); err != nil {
		return err
	}
	return os.Rename(tmp, filepath.Join(dir, ch.ID+".json"))
}
