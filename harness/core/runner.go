package core

import (
	"bufio"
	"bytes"
	"encoding/json"
	"fmt"
	"os"
	"os/exec"
	"path/filepath"
	"regexp"
	"runtime/debug"
	"sort"
	"strconv"
	"strings"
	"sync"
	"syscall"
	"time"
)

var registry = map[string]*Check{}

func Register(ch *Check) { registry[ch.ID] = ch }

func Lookup(id string) *Check { return registry[id] }

func IDs() []string {
	var ids []string
	for id := range registry {
		ids = append(ids, id)
	}
	sort.Strings(ids)
	return ids
}

func envSeed() uint64 {
	if s := os.Getenv("VERIF_SEED"); s != "" {
		if n, err := strconv.ParseInt(s, 10, 64); err == nil {
			return uint64(n)
		}
	}
	return 1
}

func BinDir() string { return filepath.Join(VerifDir, ".bin") }

// Main is the entry point of cmd/verif.
func Main() {
	if len(os.Args) < 2 {
		fmt.Fprintln(os.Stderr, "usage: verif run <ID> <tier> | worker … | replay <file> | needs <ID> | list")
		os.Exit(2)
	}
	switch os.Args[1] {
	case "list":
		for _, id := range IDs() {
			fmt.Println(id)
		}
	case "needs":
		ch := Lookup(os.Args[2])
		if ch == nil {
			os.Exit(2)
		}
		needs := append([]string{}, ch.Needs...)
		if ch.RaceCases != nil {
			needs = append(needs, "race")
		}
		fmt.Println(strings.Join(needs, " "))
	case "run":
		os.Exit(runParent(os.Args[2], os.Args[3]))
	case "worker":
		os.Exit(runWorker(os.Args[2:]))
	case "replay":
		os.Exit(runReplay(os.Args[2]))
	case "helper":
		h := helpers[os.Args[2]]
		if h == nil {
			fmt.Fprintln(os.Stderr, "unknown helper", os.Args[2])
			os.Exit(2)
		}
		os.Exit(h(os.Args[3:]))
	default:
		fmt.Fprintln(os.Stderr, "unknown command", os.Args[1])
		os.Exit(2)
	}
}

var helpers = map[string]func(args []string) int{}

// RegisterHelper registers a sub-command run as `verif helper <name> args…` in a child process.
func RegisterHelper(name string, f func(args []string) int) { helpers[name] = f }

// SelfExe returns the path of the running harness binary.
func SelfExe() string {
	p, err := os.Executable()
	if err != nil {
		return os.Args[0]
	}
	return p
}

type workerOut struct {
	shard   int
	race    bool
	res     *Result
	crashed *Violation
	timeout bool
	// sanitizerDied: a race-build worker died twice inside the sanitizer runtime (see runParent)
	sanitizerDied bool
	notes         []string
	stderr        string
}

func runParent(id, tier string) int {
	start := time.Now()
	ch := Lookup(id)
	if ch == nil {
		fmt.Printf("INCONCLUSIVE property=%s reason=unknown-check\n", id)
		return 2
	}
	if tier != "quick" && tier != "thorough" {
		tier = "quick"
	}
	seed := envSeed()
	scratch, err := os.MkdirTemp("", "verif-"+id+"-")
	if err != nil {
		fmt.Printf("INCONCLUSIVE property=%s reason=mktemp:%v\n", id, err)
		return 2
	}
	defer os.RemoveAll(scratch)

	total := NewResult()
	var inconclusive []string
	var outs []workerOut

	parts := []struct {
		race  bool
		cases int
	}{{false, ch.Cases(tier)}}
	if ch.RaceCases != nil {
		parts = append(parts, struct {
			race  bool
			cases int
		}{true, ch.RaceCases(tier)})
	}
	for _, part := range parts {
		if part.cases == 0 {
			continue
		}
		n := 16
		if ch.MaxWorkers > 0 {
			n = ch.MaxWorkers
		}
		if w := os.Getenv("VERIF_WORKERS"); w != "" {
			if k, err := strconv.Atoi(w); err == nil && k > 0 {
				n = k
			}
		}
		if n > part.cases {
			n = part.cases
		}
		exe := SelfExe()
		if part.race {
			exe = filepath.Join(BinDir(), "verif-race")
			if _, err := os.Stat(exe); err != nil {
				inconclusive = append(inconclusive, "race-binary-missing")
				continue
			}
		}
		wd := 1500
		if tier == "thorough" {
			wd = 3 * 3600
		}
		if ch.WatchdogSec != nil && ch.WatchdogSec[tier] > 0 {
			wd = ch.WatchdogSec[tier]
		}
		var wg sync.WaitGroup
		res := make([]workerOut, n)
		for i := 0; i < n; i++ {
			wg.Add(1)
			go func(i int) {
				defer wg.Done()
				res[i] = spawnWorker(exe, ch, tier, seed, i, n, part.race, scratch, wd)
				// a race-build worker that dies inside the sanitizer runtime itself (a signal whose program
				// counter lies in __tsan / __sanitizer code) says nothing about buf: run the shard once more,
				// and if it dies there again the shard is inconclusive, not a violation
				for attempt := 0; attempt < 2 && part.race && res[i].crashed != nil && sanitizerRuntimeCrash(exe, res[i].stderr); attempt++ {
					note := fmt.Sprintf("race worker shard=%d died inside the sanitizer runtime (attempt %d)", i, attempt+1)
					if attempt == 0 {
						r2 := spawnWorker(exe, ch, tier, seed, i, n, part.race, scratch, wd)
						r2.notes = append(r2.notes, note+"; shard re-run")
						res[i] = r2
					} else {
						res[i].crashed = nil
						res[i].sanitizerDied = true
						res[i].notes = append(res[i].notes, note)
					}
				}
			}(i)
		}
		wg.Wait()
		outs = append(outs, res...)
	}
	var raceReports []Violation
	for _, o := range outs {
		if o.res != nil {
			total.Merge(o.res)
		}
		if o.crashed != nil {
			total.Violations = append(total.Violations, *o.crashed)
		}
		total.Notes = append(total.Notes, o.notes...)
		if o.sanitizerDied {
			inconclusive = append(inconclusive, fmt.Sprintf("race-runtime-crash shard=%d", o.shard))
		} else if o.timeout {
			inconclusive = append(inconclusive, fmt.Sprintf("watchdog shard=%d race=%v", o.shard, o.race))
		} else if o.res == nil && o.crashed == nil {
			inconclusive = append(inconclusive, fmt.Sprintf("worker-no-result shard=%d race=%v: %s", o.shard, o.race, tail(o.stderr, 400)))
		}
	}
	// race logs
	if ch.RaceCases != nil {
		reports, nreports := parseRaceLogs(scratch)
		total.Counters["race_reports_total"] = nreports
		total.Counters["race_reports_dedup"] = len(reports)
		for _, r := range reports {
			if r.inBuf {
				raceReports = append(raceReports, Violation{Class: "data-race", Key: r.key, Message: r.text, Race: true})
			} else {
				total.Notes = append(total.Notes, "race report outside buf code (not gated): "+r.key)
			}
		}
		total.Violations = append(total.Violations, raceReports...)
	}

	for _, k := range ch.Required {
		v := total.Counters[k]
		if m, ok := total.Distinct[k]; ok {
			v += len(m)
		}
		if v == 0 {
			inconclusive = append(inconclusive, "required-counter-zero:"+k)
		}
	}
	if len(total.Distinct["nontrivial"]) < 2 {
		inconclusive = append(inconclusive, "fewer-than-2-distinct-nontrivial-cases")
	}

	// classify violations against known findings
	findings := LoadFindings()
	var fresh []Violation
	knownSeen := map[string]*Finding{}
	knownKeys := map[string]int{}
	for _, v := range total.Violations {
		if f := MatchFinding(findings, id, v); f != nil {
			knownSeen[f.ID] = f
			knownKeys[f.ID]++
			continue
		}
		fresh = append(fresh, v)
	}
	var knownLines []string
	var kids []string
	for kid := range knownSeen {
		kids = append(kids, kid)
	}
	sort.Strings(kids)
	for _, kid := range kids {
		f := knownSeen[kid]
		line := fmt.Sprintf("KNOWN-FINDING: property=%s id=%s %s (reproduced on %d case(s))", id, f.ID, f.Text, knownKeys[kid])
		fmt.Println(line)
		knownLines = append(knownLines, line)
	}

	verdict := "held"
	code := 0
	if len(fresh) > 0 {
		verdict, code = "violated", 1
		replayDir := filepath.Join(VerifDir, "replays", id)
		os.MkdirAll(replayDir, 0o755)
		// one line per distinct class (first witness), all witnesses in the file
		byClass := map[string][]Violation{}
		var classes []string
		for _, v := range fresh {
			if _, ok := byClass[v.Class]; !ok {
				classes = append(classes, v.Class)
			}
			byClass[v.Class] = append(byClass[v.Class], v)
		}
		for i, cl := range classes {
			vs := byClass[cl]
			path := filepath.Join(replayDir, fmt.Sprintf("%s-seed%d-%s-%d.json", tier, seed, sanitize(cl), i))
			data, _ := json.MarshalIndent(map[string]any{
				"property": id, "tier": tier, "seed": seed, "case": vs[0].Case, "race": vs[0].Race,
				"class": cl, "witnesses": vs,
			}, "", " ")
			os.WriteFile(path, data, 0o644)
			fmt.Printf("VIOLATION property=%s replay=%s class=%s key=%q :: %s\n", id, path, cl, vs[0].Key, oneLine(vs[0].Message, 300))
		}
	} else if len(inconclusive) > 0 {
		verdict, code = "inconclusive", 2
	}
	for _, r := range inconclusive {
		fmt.Printf("INCONCLUSIVE property=%s reason=%s\n", id, r)
	}
	wall := time.Since(start).Seconds()
	var extra []string
	for _, r := range inconclusive {
		extra = append(extra, "INCONCLUSIVE: "+r)
	}
	if err := WriteEvidence(ch, tier, seed, total, wall, verdict, len(fresh), knownLines, extra); err != nil {
		fmt.Printf("INCONCLUSIVE property=%s reason=evidence-write:%v\n", id, err)
		if code == 0 {
			code = 2
		}
	}
	fmt.Printf("%s %s tier=%s seed=%d cases=%d evals=%d distinct_nontrivial=%d violations=%d known=%d wall=%.1fs\n",
		strings.ToUpper(verdict), id, tier, seed, total.Cases, total.Evals, len(total.Distinct["nontrivial"]), len(fresh), len(knownSeen), wall)
	return code
}

func sanitize(s string) string {
	return regexp.MustCompile(`[^A-Za-z0-9_.-]+`).ReplaceAllString(s, "_")
}

func oneLine(s string, n int) string {
	s = strings.ReplaceAll(s, "\n", " ⏎ ")
	if len(s) > n {
		s = s[:n] + "…"
	}
	return s
}

func tail(s string, n int) string {
	if len(s) > n {
		return s[len(s)-n:]
	}
	return s
}

func spawnWorker(exe string, ch *Check, tier string, seed uint64, shard, of int, race bool, scratch string, watchdogSec int) workerOut {
	tag := fmt.Sprintf("w%d", shard)
	if race {
		tag = "r" + tag
	}
	dir := filepath.Join(scratch, tag)
	os.MkdirAll(dir, 0o755)
	outPath := filepath.Join(dir, "result.json")
	journal := filepath.Join(dir, "journal")
	tmp := filepath.Join(dir, "tmp")
	os.MkdirAll(tmp, 0o755)
	args := []string{"worker", ch.ID, tier, strconv.FormatUint(seed, 10), strconv.Itoa(shard), strconv.Itoa(of), outPath, journal, tmp}
	if race {
		args = append(args, "race")
	}
	cmd := exec.Command(exe, args...)
	cmd.Dir = tmp
	var stderr bytes.Buffer
	cmd.Stderr = &stderr
	cmd.Stdout = &stderr
	cmd.Env = append(os.Environ(), "TMPDIR="+tmp)
	if race {
		cmd.Env = append(cmd.Env, "GORACE=halt_on_error=0 log_path="+filepath.Join(scratch, "racelog"))
	}
	cmd.SysProcAttr = &syscall.SysProcAttr{Setpgid: true}
	out := workerOut{shard: shard, race: race}
	if err := cmd.Start(); err != nil {
		out.stderr = err.Error()
		return out
	}
	done := make(chan error, 1)
	go func() { done <- cmd.Wait() }()
	var werr error
	select {
	case werr = <-done:
	case <-time.After(time.Duration(watchdogSec) * time.Second):
		syscall.Kill(-cmd.Process.Pid, syscall.SIGQUIT)
		time.Sleep(2 * time.Second)
		syscall.Kill(-cmd.Process.Pid, syscall.SIGKILL)
		<-done
		out.timeout = true
		out.stderr = stderr.String()
		os.WriteFile(filepath.Join(VerifDir, "replays", ch.ID+"-watchdog-"+tag+".log"), []byte(tail(out.stderr, 200000)), 0o644)
		return out
	}
	out.stderr = stderr.String()
	data, rerr := os.ReadFile(outPath)
	if rerr == nil {
		r := NewResult()
		if json.Unmarshal(data, r) == nil {
			out.res = r
		}
	}
	if out.res == nil {
		// the worker died: the journaled case is the witness
		last := lastJournaled(journal)
		if last >= 0 {
			out.crashed = &Violation{
				Class: "crash", Key: fmt.Sprintf("case=%d", last), Case: last, Race: race,
				Message: fmt.Sprintf("worker died (%v) while executing case %d; stderr head: %s\n…\nstderr tail: %s", werr, last, head(out.stderr, 3000), tail(out.stderr, 3000)),
			}
			// partial results of earlier cases are lost; the run is still decided (violated)
		}
	}
	return out
}

func lastJournaled(path string) int {
	f, err := os.Open(path)
	if err != nil {
		return -1
	}
	defer f.Close()
	last := -1
	sc := bufio.NewScanner(f)
	for sc.Scan() {
		parts := strings.Fields(sc.Text())
		if len(parts) == 2 && parts[0] == "start" {
			if n, err := strconv.Atoi(parts[1]); err == nil {
				last = n
			}
		}
		if len(parts) == 2 && parts[0] == "done" {
			last = -1
		}
	}
	return last
}

func runWorker(args []string) int {
	id, tier := args[0], args[1]
	seed, _ := strconv.ParseUint(args[2], 10, 64)
	shard, _ := strconv.Atoi(args[3])
	of, _ := strconv.Atoi(args[4])
	outPath, journal, tmp := args[5], args[6], args[7]
	race := len(args) > 8 && args[8] == "race"
	ch := Lookup(id)
	if ch == nil {
		return 2
	}
	jf, err := os.OpenFile(journal, os.O_CREATE|os.O_WRONLY|os.O_APPEND, 0o644)
	if err != nil {
		return 2
	}
	res := NewResult()
	n := ch.Cases(tier)
	run := ch.Run
	if race {
		n = ch.RaceCases(tier)
		run = ch.RunRace
	}
	for idx := shard; idx < n; idx += of {
		fmt.Fprintf(jf, "start %d\n", idx)
		c := &C{ID: id, Tier: tier, Seed: seed, Idx: idx, Race: race, Tmp: tmp, res: res,
			Rand: RandFor(seed, id, idx, "case")}
		runCase(c, run, idx)
		res.Cases++
		fmt.Fprintf(jf, "done %d\n", idx)
	}
	data, err := json.Marshal(res)
	if err != nil {
		fmt.Fprintln(os.Stderr, "marshal result:", err)
		return 2
	}
	if err := os.WriteFile(outPath, data, 0o644); err != nil {
		return 2
	}
	return 0
}

// runCase converts a Go panic inside buf code (or the monitor) into a violation: a panic on an
// in-domain input refutes the property quantifying over that input.
func runCase(c *C, run func(*C, int), idx int) {
	defer func() {
		if r := recover(); r != nil {
			c.Violation("panic", fmt.Sprintf("case=%d", idx), fmt.Sprintf("panic: %v\n%s", r, tail(string(debug.Stack()), 3000)), nil)
		}
	}()
	run(c, idx)
}

func runReplay(path string) int {
	data, err := os.ReadFile(path)
	if err != nil {
		fmt.Fprintln(os.Stderr, err)
		return 2
	}
	var rp struct {
		Property string `json:"property"`
		Tier     string `json:"tier"`
		Seed     uint64 `json:"seed"`
		Case     int    `json:"case"`
		Race     bool   `json:"race"`
	}
	if err := json.Unmarshal(data, &rp); err != nil {
		fmt.Fprintln(os.Stderr, err)
		return 2
	}
	ch := Lookup(rp.Property)
	if ch == nil {
		return 2
	}
	tmp, _ := os.MkdirTemp("", "verif-replay-")
	defer os.RemoveAll(tmp)
	os.Chdir(tmp)
	os.Setenv("TMPDIR", tmp)
	res := NewResult()
	c := &C{ID: rp.Property, Tier: rp.Tier, Seed: rp.Seed, Idx: rp.Case, Race: rp.Race, Tmp: tmp, res: res, Replay: true,
		Rand: RandFor(rp.Seed, rp.Property, rp.Case, "case")}
	run := ch.Run
	if rp.Race {
		run = ch.RunRace
	}
	runCase(c, run, rp.Case)
	fmt.Printf("replayed %s case=%d seed=%d tier=%s: %d violation(s)\n", rp.Property, rp.Case, rp.Seed, rp.Tier, len(res.Violations))
	if len(res.Violations) > 0 {
		return 1
	}
	return 0
}

// ---- race logs ---------------------------------------------------------------------

type raceReport struct {
	key   string
	text  string
	inBuf bool
}

var frameRe = regexp.MustCompile(`^\s+([A-Za-z0-9_./\-]+(?:\(\*?[A-Za-z0-9_]+(?:\[[^\]]*\])?\))?[A-Za-z0-9_.\-]*(?:\.func\d+)*)\(`)

// parseRaceLogs reads every racelog.* in dir, splits into reports, and de-duplicates by the
// pair of stacks with line numbers stripped.
func parseRaceLogs(dir string) (map[string]raceReport, int) {
	files, _ := filepath.Glob(filepath.Join(dir, "racelog.*"))
	out := map[string]raceReport{}
	n := 0
	for _, f := range files {
		data, err := os.ReadFile(f)
		if err != nil {
			continue
		}
		for _, block := range strings.Split(string(data), "==================") {
			if !strings.Contains(block, "WARNING: DATA RACE") {
				continue
			}
			n++
			var frames []string
			inBuf := false
			for _, line := range strings.Split(block, "\n") {
				if m := frameRe.FindStringSubmatch(line); m != nil {
					frames = append(frames, m[1])
					if strings.Contains(m[1], "github.com/bufbuild/buf/") && !strings.Contains(m[1], "verifhook") {
						inBuf = true
					}
				}
			}
			key := strings.Join(frames, "<")
			if len(key) > 600 {
				key = fmt.Sprintf("%s…#%016x", key[:560], hash64(key))
			}
			if _, ok := out[key]; !ok {
				out[key] = raceReport{key: key, text: tail(block, 6000), inBuf: inBuf}
			}
		}
	}
	return out, n
}

func head(s string, n int) string {
	if len(s) <= n {
		return s
	}
	return s[:n]
}

var ripRE = regexp.MustCompile(`(?m)^rip\s+(0x[0-9a-f]+)$`)

// sanitizerRuntimeCrash reports whether the crash dump of a race-build worker shows a signal whose program
// counter resolves into the ThreadSanitizer runtime of the binary (go tool addr2line).
func sanitizerRuntimeCrash(exe, stderr string) bool {
	m := ripRE.FindStringSubmatch(stderr)
	if m == nil {
		return false
	}
	cmd := exec.Command("go", "tool", "addr2line", exe)
	cmd.Stdin = strings.NewReader(m[1] + "\n")
	out, err := cmd.Output()
	if err != nil {
		return false
	}
	sym := strings.SplitN(string(out), "\n", 2)[0]
	return strings.Contains(sym, "__tsan") || strings.Contains(sym, "__sanitizer")
}
