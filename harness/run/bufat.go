package run

import (
	"bytes"
	"context"
	"io"
	"strings"

	"github.com/bufbuild/buf/private/buf/cmd/buf"
	"github.com/bufbuild/buf/private/pkg/app"
	"github.com/bufbuild/buf/private/pkg/app/appcmd"
	"github.com/bufbuild/buf/private/pkg/osext"
)

// BufAt is Buf for callers that run commands in *different* directories within one process: buf
// caches the working directory (osext.Getwd), so the directory must be changed through
// osext.Chdir, which invalidates that cache; relative inputs such as `buf build proto` are
// otherwise resolved against the directory of the first command of the process.
func BufAt(dir string, env map[string]string, stdin io.Reader, args ...string) Out {
	args = NoDeadline(args)
	if dir != "" {
		old, _ := osext.Getwd()
		if err := osext.Chdir(dir); err != nil {
			return Out{Stderr: []byte("chdir: " + err.Error()), Code: -1}
		}
		defer osext.Chdir(old)
	}
	if stdin == nil {
		stdin = strings.NewReader("")
	}
	var stdout, stderr bytes.Buffer
	err := appcmd.Run(
		context.Background(),
		app.NewContainer(env, stdin, &stdout, &stderr, append([]string{"buf"}, args...)...),
		buf.NewRootCommand("buf"),
	)
	return Out{Stdout: stdout.Bytes(), Stderr: stderr.Bytes(), Code: app.GetExitCode(err)}
}
