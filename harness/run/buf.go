// Package run executes the real buf code: in-process CLI, subprocess CLI, and filesystem helpers.
package run

import (
	"bytes"
	"context"
	"crypto/sha256"
	"encoding/hex"
	"errors"
	"io"
	"io/fs"
	"os"
	"os/exec"
	"path/filepath"
	"sort"
	"strings"
	"syscall"
	"time"

	"github.com/bufbuild/buf/private/buf/cmd/buf"
	"github.com/bufbuild/buf/private/pkg/app"
	"github.com/bufbuild/buf/private/pkg/app/appcmd"
	"github.com/bufbuild/buf/private/pkg/osext"
)

// Out is the observable outcome of one CLI execution.
type Out struct {
	Stdout []byte
	Stderr []byte
	Code   int
}

// BufEnv returns the minimal environment for a buf command, with cache/config under home.
func BufEnv(home string, extra map[string]string) map[string]string {
	env := map[string]string{
		"BUF_CACHE_DIR":  filepath.Join(home, ".cache"),
		"BUF_CONFIG_DIR": filepath.Join(home, ".config"),
		"HOME":           home,
		"PATH":           os.Getenv("PATH"),
	}
	for k, v := range extra {
		env[k] = v
	}
	return env
}

// Buf runs a buf command in-process (the exact command tree of cmd/buf) with cwd = dir.
// Workers run one case at a time, so changing the process cwd is safe.
func Buf(dir string, env map[string]string, stdin io.Reader, args ...string) Out {
	args = NoDeadline(args)
	if dir != "" {
		old, _ := os.Getwd()
		// buf caches the working directory process-wide (osext.Getwd); osext.Chdir clears the cache
		if err := osext.Chdir(dir); err != nil {
			return Out{Stderr: []byte("chdir: " + err.Error()), Code: -1}
		}
		defer osext.Chdir(old)
	}
	if stdin == nil {
		stdin = strings.NewReader("")
	}
	var stdout, stderr bytes.Buffer
	err := appcmd.Run(
		context.Background(),
		app.NewContainer(env, stdin, &stdout, &stderr, append([]string{"buf"}, args...)...),
		buf.NewRootCommand("buf"),
	)
	return Out{Stdout: stdout.Bytes(), Stderr: stderr.Bytes(), Code: app.GetExitCode(err)}
}

// BufExec runs the freshly built buf binary as a subprocess.
func BufExec(bin, dir string, env map[string]string, stdin io.Reader, timeout time.Duration, args ...string) Out {
	args = NoDeadline(args)
	ctx, cancel := context.WithTimeout(context.Background(), timeout)
	defer cancel()
	cmd := exec.CommandContext(ctx, bin, args...)
	cmd.Dir = dir
	for k, v := range env {
		cmd.Env = append(cmd.Env, k+"="+v)
	}
	sort.Strings(cmd.Env)
	cmd.Stdin = stdin
	var stdout, stderr bytes.Buffer
	cmd.Stdout, cmd.Stderr = &stdout, &stderr
	err := cmd.Run()
	code := 0
	if err != nil {
		var ee *exec.ExitError
		if errors.As(err, &ee) {
			code = ee.ExitCode()
			if ws, ok := ee.Sys().(syscall.WaitStatus); ok && ws.Signaled() {
				code = -int(ws.Signal())
			}
		} else {
			code = -1000
			stderr.WriteString("\nexec: " + err.Error())
		}
	}
	return Out{Stdout: stdout.Bytes(), Stderr: stderr.Bytes(), Code: code}
}

// WriteTree writes files (relative path -> content) under root.
func WriteTree(root string, files map[string]string) error {
	for p, content := range files {
		full := filepath.Join(root, filepath.FromSlash(p))
		if err := os.MkdirAll(filepath.Dir(full), 0o755); err != nil {
			return err
		}
		if err := os.WriteFile(full, []byte(content), 0o644); err != nil {
			return err
		}
	}
	return nil
}

// Snapshot maps every entry under root (relative, slash-separated) to a content hash
// ("dir" for directories, "link:<target>" for symlinks). Entries under any skip prefix
// (relative paths) are omitted.
func Snapshot(root string, skip ...string) map[string]string {
	out := map[string]string{}
	filepath.WalkDir(root, func(p string, d fs.DirEntry, err error) error {
		if err != nil {
			return nil
		}
		rel, _ := filepath.Rel(root, p)
		rel = filepath.ToSlash(rel)
		for _, s := range skip {
			if rel == s || strings.HasPrefix(rel, s+"/") {
				if d.IsDir() {
					return filepath.SkipDir
				}
				return nil
			}
		}
		switch {
		case d.IsDir():
			out[rel] = "dir"
		case d.Type()&fs.ModeSymlink != 0:
			t, _ := os.Readlink(p)
			out[rel] = "link:" + t
		default:
			data, err := os.ReadFile(p)
			if err != nil {
				out[rel] = "unreadable"
			} else {
				h := sha256.Sum256(data)
				out[rel] = hex.EncodeToString(h[:8])
			}
		}
		return nil
	})
	return out
}

// DiffSnap describes the difference between two snapshots ("" if equal).
func DiffSnap(a, b map[string]string) string {
	var d []string
	for k, v := range a {
		if w, ok := b[k]; !ok {
			d = append(d, "removed:"+k)
		} else if w != v {
			d = append(d, "changed:"+k)
		}
	}
	for k := range b {
		if _, ok := a[k]; !ok {
			d = append(d, "added:"+k)
		}
	}
	sort.Strings(d)
	return strings.Join(d, ",")
}

// CleanDir removes everything inside dir.
func CleanDir(dir string) {
	entries, _ := os.ReadDir(dir)
	for _, e := range entries {
		os.RemoveAll(filepath.Join(dir, e.Name()))
	}
}

// NoDeadline appends --timeout=0 unless the caller chose a timeout: buf's default deadline of two minutes is a
// wall-clock verdict that a loaded machine can trip (every command of the CLI carries the global flag).
func NoDeadline(args []string) []string {
	if len(args) == 0 || strings.HasPrefix(args[0], "-") || args[0] == "help" || args[0] == "completion" {
		return args
	}
	for _, a := range args {
		if a == "--" || a == "--timeout" || strings.HasPrefix(a, "--timeout=") {
			return args
		}
	}
	return append(append([]string{}, args...), "--timeout=0")
}
