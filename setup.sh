#!/bin/bash
# Builds the harness from files on disk only (offline) and primes the Go build cache.
set -e
cd /verif
export GOFLAGS=-mod=mod GOPROXY=off GOSUMDB=off GOTOOLCHAIN=local
mkdir -p .bin evidence
(cd harness && go build -tags verif -o /verif/.bin/verif ./cmd/verif)
(cd harness && go build -tags verif -race -o /verif/.bin/verif-race ./cmd/verif)
(cd /repo && go build -tags verif -o /verif/.bin/buf ./cmd/buf)
echo setup ok
