#!/bin/bash
# usage: tools/vetmutant.sh <worktree> <name> <demo test path rel to repo root> <go test args…>
# Confirms: patch applies on a clean tree, builds, baseline suite still passes with it, the demo fails with it and
# passes without it. On success stores /verif/seeded/<name>/{patch.diff,demo_test.go,agent_README.md}.
set -u
wt=$1; name=$2; demo=$3; shift 3
export GOFLAGS=-mod=mod GOPROXY=off GOSUMDB=off GOTOOLCHAIN=local
cd "$wt" || exit 2
cp MUTANT/patch.diff /tmp/vet-$name.diff
cp "$demo" /tmp/vet-$name-demo_test.go 2>/dev/null || cp MUTANT/demo_test.go* /tmp/vet-$name-demo_test.go
git checkout -q -- . ; rm -f "$demo"
git apply --check /tmp/vet-$name.diff || { echo "FAIL: patch does not apply to clean tree"; exit 1; }
# without patch: demo passes
cp /tmp/vet-$name-demo_test.go "$demo"
if go test -count=1 "$@" >/tmp/vet-$name-without.log 2>&1; then echo "ok: demo passes without patch"; else echo "FAIL: demo fails WITHOUT patch"; tail -5 /tmp/vet-$name-without.log; exit 1; fi
git apply /tmp/vet-$name.diff
go build ./... || { echo "FAIL: build"; exit 1; }
if go test -count=1 "$@" >/tmp/vet-$name-with.log 2>&1; then echo "FAIL: demo passes WITH patch"; exit 1; else echo "ok: demo fails with patch"; fi
rm -f "$demo"
if REPO=$wt /verif/tools/baseline.sh > /tmp/vet-$name-baseline.log 2>&1; then echo "ok: baseline passes with patch: $(head -1 /tmp/vet-$name-baseline.log)"; else echo "FAIL: baseline"; cat /tmp/vet-$name-baseline.log | head; exit 1; fi
mkdir -p /verif/seeded/$name
cp /tmp/vet-$name.diff /verif/seeded/$name/patch.diff
cp /tmp/vet-$name-demo_test.go /verif/seeded/$name/demo_test.go
cp MUTANT/README.md /verif/seeded/$name/agent_README.md
echo "$demo :: go test -count=1 $*" > /verif/seeded/$name/demo_cmd.txt
echo "STORED /verif/seeded/$name"
