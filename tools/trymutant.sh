#!/bin/bash
# usage: tools/trymutant.sh <patch.diff> <ID> [more IDs…]   — applies the patch to /repo, runs the quick checks, reverts.
patch=$1; shift
cd /repo || exit 2
if ! git diff --quiet; then echo "/repo has local changes"; exit 2; fi
git apply "$patch" || { echo "patch does not apply"; exit 2; }
trap 'git -C /repo checkout -- . ; git -C /repo clean -fdq -- private cmd' EXIT
for id in "$@"; do
  out=$(cd /verif && ./check "$id" 2>&1)
  echo "$out" | grep -E '^(VIOLATION|INCONCLUSIVE|HELD|VIOLATED|KNOWN)' | cut -c1-400 | head -6
done
