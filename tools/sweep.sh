#!/bin/bash
# usage: tools/sweep.sh <tier> "<seeds>" [IDs…]   — runs the registered checks and prints one summary line per run.
# In a `vp run --with-repo` snapshot it compiles against $VP_RUN_REPO.
tier=${1:-quick}; seeds=${2:-1}; shift 2 || true
cd "$(dirname "$0")/.." || exit 2
[ -n "${VP_RUN_REPO:-}" ] && export VERIF_REPO=$VP_RUN_REPO
ids=("$@"); [ ${#ids[@]} -eq 0 ] && ids=($(cat tools/built.txt))
rc=0
for s in $seeds; do
  for id in "${ids[@]}"; do
    out=$(VERIF_SEED=$s ./check "$id" --tier "$tier" 2>&1); code=$?
    echo "$out" | grep -E '^(VIOLATION|INCONCLUSIVE)' | cut -c1-500
    echo "seed=$s $(echo "$out" | tail -1) exit=$code"
    [ $code -ne 0 ] && rc=1
  done
done
exit $rc
