#!/opt/veriftools/pyvenv/bin/python
import json,jsonschema,glob,sys
m=json.load(open('/verif/MANIFEST.json')); jsonschema.validate(m,json.load(open('/root/.vp/MANIFEST.schema.json')))
props=[json.loads(l)['id'] for l in open('/verif/properties.jsonl')]
claimed=[c['property_id'] for c in m['checks']]
na=[n['property_id'] for n in m.get('not_applicable',[])]
missing=[p for p in props if p not in claimed and p not in na]
print("manifest valid; claimed",len(claimed),"n/a",len(na),"unlisted",missing)
s=json.load(open('/root/.vp/EVIDENCE.schema.json'))
for f in sorted(glob.glob('/verif/evidence/*.json')):
    try:
        jsonschema.validate(json.load(open(f)),s); 
    except Exception as e:
        print("INVALID",f,str(e)[:200]); continue
    print("ok",f)
