#!/usr/bin/env python3
import json,sys,os
name,prop,needs,caught_by,result=sys.argv[1:6]
d='/verif/seeded/'+name
demo=open(d+'/demo_cmd.txt').read().strip()
meta={"name":name,"breaks_property":prop,"needs_to_manifest":needs,
 "demonstration":{"file":"demo_test.go","place_at_and_run":demo,"verified":"fails with patch.diff applied, passes on the unchanged tree (tools/vetmutant.sh)"},
 "existing_suite":"pinned baseline (1237 stable tests) passes with the patch applied (tools/baseline.sh on the scratch worktree)",
 "checks_run":caught_by,"result":result}
json.dump(meta,open(d+'/meta.json','w'),indent=1)
print("wrote",d+'/meta.json')
