#!/bin/bash
# usage: tools/regress.sh <ID>…  — applies every stored seeded change of each property to /repo in turn (trymutant),
# runs that property's quick check and prints one line per change. Never run concurrently with other checks.
cd /verif
for id in "$@"; do
  for d in seeded/$id-*; do
    n=$(basename $d)
    r=$(tools/trymutant.sh /verif/$d/patch.diff $id 2>&1 | grep "^VIOLATED\|^HELD\|^INCONCLUSIVE" | tail -1 | cut -c1-60)
    echo "$n :: $r"
  done
done
git -C /repo status --short | head -3
