#!/usr/bin/env python3
"""Regenerates /verif/MANIFEST.json from the table below. Edit BUILT / TABLE, then run."""
import json
HOOKS=["fbc18f8","332056d","ac125c5","6c6870b","ecb6d55"]
# id -> (level, text, note, technique)
TABLE={
"C09":("fault_enumeration","One cache entry is driven through every enumerated crash point of a store (SIGKILL of a child process at each hook hit), every injected write/close failure, every single-file tampering and concurrent store/load histories with widened lock windows (processes, and goroutines under the race detector), with the production wiring (disk bucket + file locks). Every read outcome is classified by an oracle that recomputes the b5 digest independently: success with wrong content, a complete marker over incomplete content, an undetected module-file tamper, or a failed repair refutes the property. Exhaustive over the enumerated points of the generated modules.","Crash = process kill at hook granularity; no power-loss model. Trusts the independent digest construction (harness/model/digestmodel.go) and porcupine. 'not cached' after a completed store is allowed by the property and only counted.","runtime monitoring: crash-point/fault/tamper enumeration with history oracle + porcupine + Go race detector"),
"C13":("exploration","Exhaustive (to a length bound) enumeration of path spellings driven through every bucket kind and operation of the real storage packages while a sentinel monitor watches everything outside the root; held on the executions produced, exhaustive for the stated alphabet and bound only.","Trusts the lexical escape model (harness/model/pathmodel.go) as the definition of 'escapes'; symlink escapes and Windows path forms are not explored.","runtime monitoring: sentinel/invariant monitor + reference path model over exhaustive bounded enumeration"),
"C14":("exploration","PRNG-generated operation histories applied to the real disk/memory/mapped buckets and, step by step, to a map[path]bytes reference model; every read on the bases, on random combinator compositions and on tar/zip round trips is compared with the (transformed) model; concurrent histories on the memory bucket are recorded at the client boundary and checked for linearizability with porcupine in a -race build. Held on the executions produced.","Trusts the reference model (harness/checks/c14.go viewModel + model.ContainsPath) and porcupine; domain restricted to prefix-free path sets as the property states.","runtime monitoring: reference-model monitor over random operation histories + porcupine linearizability check + Go race detector"),
"C15":("fault_enumeration","Every single fault position (k-th Put, Write, short write, Close) of every listed write operation is enumerated from a fault-free dry run and injected through wrapper buckets/writers, through the storageos hook points on a real disk bucket, and as real EISDIR/limit failures; the atomic put is SIGKILLed at every hook-point hit while a concurrent reader polls. Oracle over the recorded outcome: fault fired => error; nil => destination equals source; readers and post-crash state see old or complete new content only. Exhaustive over single positions of the sources used (pairs in the thorough tier).","Crash = process kill at hook granularity (no power-loss model); wrapper faults model I/O errors at the storage interface; positions are those of the generated sources only.","runtime monitoring: fault/crash-point enumeration with injected failures (wrapper buckets, build-tag hooks, SIGKILL) and an outcome oracle"),
}
BUILT=[l.strip() for l in open('/verif/tools/built.txt') if l.strip()]
props=[json.loads(l)['id'] for l in open('/verif/properties.jsonl')]
checks=[];na=[]
for p in props:
    if p in BUILT:
        lvl,text,note,tech=TABLE[p]
        checks.append({"property_id":p,"quick_cmd":f"./check {p} --tier quick","thorough_cmd":f"./check {p} --tier thorough",
          "evidence_file":f"evidence/{p}.json","replay_cmd_template":"./check --replay {path}","engine":"verif-harness",
          "level_claimed":{"category":lvl,"text":text,"design_ref":f"DESIGN.md §6 {p}"},"level_note":note,"technique":tech})
    else:
        na.append({"property_id":p,"reason":"check not yet built at this commit (design in DESIGN.md §6; it will be claimed once its monitor exists and is silent on the unchanged tree)"})
m={"version":1,"setup_cmd":"./setup.sh",
 "hooks":{"guard":"verif","enable":"go build -tags verif (the harness module /verif/harness replaces github.com/bufbuild/buf with /repo, so every check recompiles the current working tree with the hooks on)",
  "baseline_off_cmd":"cd /repo && go test -mod=mod -json -vet=off -count=1 -timeout 25m ./...","source_commits":HOOKS,"add_only":True},
 "engines":[{"name":"verif-harness","path":"harness/","serves_properties":BUILT,"kind_free_text":"Go harness executing the real buf code of /repo (library entry points and the in-process/subprocess CLI) on enumerated, PRNG-generated and fault-injected workloads under monitors with reference-model / history / metamorphic oracles; race-detector build for the concurrent parts"}],
 "checks":checks,"not_applicable":na,
 "notes":"All checks are runtime monitors over executions of the real code (see DESIGN.md). Exit 0 held, 1 violated (VIOLATION line), 2 inconclusive."}
json.dump(m,open('/verif/MANIFEST.json','w'),indent=1,ensure_ascii=False)
print("wrote MANIFEST.json: claimed",len(checks),"not_applicable",len(na))
