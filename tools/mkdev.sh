#!/bin/bash
# usage: tools/mkdev.sh <name>  — creates /tmp/dev-<name>: a private copy of the framework plus a private
# git worktree of /repo (at /tmp/dev-<name>/repo) that the copy's harness compiles against.
set -e
name=$1
d=/tmp/dev-$name
rm -rf "$d"; mkdir -p "$d"
rsync -a --exclude .git --exclude .bin --exclude replays --exclude evidence --exclude seeded /verif/ "$d/"
git -C /repo worktree add -q --detach "$d/repo" HEAD
sed -i "s#=> /repo#=> $d/repo#" "$d/harness/go.mod"
cat > "$d/devcheck" <<EOF
#!/bin/bash
# runs a check of this development copy against its private repo worktree
export VERIF_REPO=$d/repo
exec $d/check "\$@"
EOF
chmod +x "$d/devcheck"
echo "$d"
