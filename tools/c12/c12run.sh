#!/bin/bash
# usage: c12run.sh [seed] [tier]   — clean replays, run the check, summarise witnesses
cd "$(dirname "$0")/../.."
rm -rf replays/C12
VERIF_SEED=${1:-1} ./devcheck C12 --tier ${2:-quick} 2>&1 | grep -v '^VIOLATION' | tail -12
for f in replays/C12/*.json; do
  [ -f "$f" ] && jq -r '.witnesses[] | "\(.class)\t\(.key)"' "$f"
done | sort | uniq -c | sort -rn
