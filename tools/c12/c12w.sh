#!/bin/bash
# usage: c12w.sh <class> [keysubstr] [n]  — print witnesses
for f in "$(dirname "$0")/../../replays/C12"/*.json; do
  jq -r --arg c "$1" --arg k "${2:-}" '.witnesses[] | select(.class==$c and (.key|contains($k))) | "case=\(.case) key=\(.key)\n\(.message)\n"' "$f"
done | head -${3:-40}
