#!/bin/bash
# Runs the repository's pinned baseline suite with the verif guard OFF and compares
# the result with /root/.vp/BASELINE.json (every stable_pass test must pass).
# usage: tools/baseline.sh [pkg-pattern...]   (default ./...)
export GOFLAGS=-mod=mod GOPROXY=off GOSUMDB=off GOTOOLCHAIN=local
out=$(mktemp /tmp/verif-baseline.XXXXXX.json)
trap 'rm -f "$out"' EXIT
pk=("$@"); [ ${#pk[@]} -eq 0 ] && pk=(./...)
(cd ${REPO:-/repo} && go test -mod=mod -json -vet=off -count=1 -timeout 25m "${pk[@]}") > "$out" 2>/dev/null
python3 - "$out" "${pk[*]}" <<'PY'
import json,sys
res={}
for line in open(sys.argv[1]):
    try: e=json.loads(line)
    except Exception: continue
    if e.get('Test') and e.get('Action') in ('pass','fail','skip'):
        res[e['Package']+'::'+e['Test']]=e['Action']
b=json.load(open('/root/.vp/BASELINE.json'))
sp=b['stable_pass']
full = sys.argv[2].strip()=='./...'
bad=[t for t in sp if (res.get(t)!='pass') and (full or t in res)]
seen=sum(1 for t in sp if t in res)
print(f"baseline: stable_pass={len(sp)} seen={seen} not-passing={len(bad)}")
# a loaded machine makes a few timing-sensitive tests flake: re-run what did not pass, alone, once
import subprocess,os,collections
still=[]
if bad and len(bad)<=40:
    bypkg=collections.defaultdict(list)
    for t in bad:
        pkg,name=t.split('::',1); bypkg[pkg].append(name.split('/')[0])
    repo=os.environ.get('REPO','/repo')
    for pkg,names in bypkg.items():
        rel='./'+pkg.split('github.com/bufbuild/buf/',1)[1]
        rx='^('+'|'.join(sorted(set(names)))+')$'
        r=subprocess.run(['go','test','-mod=mod','-json','-vet=off','-count=1','-timeout','25m','-run',rx,rel],cwd=repo,capture_output=True,text=True)
        res2={}
        for line in r.stdout.splitlines():
            try: e=json.loads(line)
            except Exception: continue
            if e.get('Test') and e.get('Action') in ('pass','fail','skip'):
                res2[e['Package']+'::'+e['Test']]=e['Action']
        for t in bad:
            if t.startswith(pkg+'::') and res2.get(t)!='pass': still.append(t)
    print(f"baseline: re-ran {len(bad)} non-passing test(s) alone: {len(still)} still not passing")
    bad=still
for t in bad[:50]: print("  NOT PASSING:",t,res.get(t))
sys.exit(1 if bad or seen==0 else 0)
PY
